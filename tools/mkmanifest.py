#!/usr/bin/env python3
"""Regenerates MANIFEST.json from the table below (developer tool)."""
import json, subprocess
hooks_commits = subprocess.run(['git','-C','/repo','log','--format=%H %s'],capture_output=True,text=True).stdout.strip().split('\n')
hook_shas = [l.split()[0] for l in hooks_commits if 'verif hooks' in l]
ENV = "GOFLAGS=-mod=mod GOPROXY=off"
checks = {
 'C01': ("reference-model monitor: exact winding oracle beside every execution, 16 (op,rule) per input", "§8 C01"),
 'C02': ("structural + exact-winding monitor of every returned solution; option setter hook", "§8 C02"),
 'C14': ("reference-model monitor: math/big beside predicate aliases; exhaustive micro-grid + random hard operands", "§8 C14"),
 'C19': ("metamorphic monitor over the library's own five results per input: exact areas + pointwise identities", "§8 C19"),
}
TEXT = {
 'C01': "Exploration: held on the executions observed (tens of thousands of inputs x 16 operations per quick run, >10^8 sample points), nothing is proved. Right level because the property quantifies over all inputs and its meaning (a region) is computable exactly per point, so an oracle beside real executions is the strongest evidence this technique family offers.",
 'C02': "Exploration over the same workloads as C01 with the reverse/preserve-collinear options reached through a hook; structural conditions are checked on every returned path, the winding condition at sampled points.",
 'C14': "Exploration, exhaustive only for the micro-domain [-2,2]^2 point triples; random hard operands elsewhere. Exact reference arithmetic makes every evaluation a decided comparison.",
 'C19': "Exploration: identities between the library's own results are checked with exact areas and at sampled points on small and large (thousands of vertices) inputs.",
}
NOTE = "Trusted: the harness oracles (128-bit/ math/big integer arithmetic, float distance with conservative margin), the Go toolchain, and that `-tags verif` hooks only observe. Residual genuine defects met in the closed pool are listed in KNOWN_FINDINGS.json by input or call-site class."
m = {
 "version": 1,
 "setup_cmd": "cd /verif/harness && cp /repo/go.sum go.sum && GOFLAGS=-mod=mod GOPROXY=off go build -tags verif -o /verif/bin/vcheck ./cmd/vcheck",
 "hooks": {
  "guard": "verif (Go build tag)",
  "enable": "go build -tags verif (the harness module replaces github.com/bolom009/go-clipper2 => /repo and is rebuilt by every check)",
  "baseline_off_cmd": "cd /repo && GOFLAGS=-mod=mod GOPROXY=off go test -vet=off -count=1 -json ./...",
  "source_commits": hook_shas,
  "add_only": True,
 },
 "engines": [{"name": "vcheck", "path": "/verif/harness", "serves_properties": sorted(checks), "kind_free_text": "Go runtime monitors: parent/worker processes, reference-model oracles, hook-event consumers, known-finding matcher, evidence writer"}],
 "checks": [],
 "notes": "Technique family: runtime monitoring. Exit codes: 0 held / 1 violation (VIOLATION line) / 2 build failure / 3 inconclusive. See DESIGN.md.",
 "not_applicable": [],
}
allp = [json.loads(l)['id'] for l in open('/verif/properties.jsonl')]
for pid in allp:
    if pid in checks:
        tech, ref = checks[pid]
        m['checks'].append({
         "property_id": pid,
         "quick_cmd": "./check %s quick" % pid,
         "thorough_cmd": "./check %s thorough" % pid,
         "evidence_file": "/verif/evidence/%s.json" % pid,
         "replay_cmd_template": "./check %s --replay {path}" % pid,
         "engine": "vcheck",
         "level_claimed": {"category": "exploration", "text": TEXT[pid], "design_ref": ref},
         "level_note": NOTE,
         "technique": "runtime monitoring: " + tech,
        })
    else:
        m['not_applicable'].append({"property_id": pid, "reason": "monitor not built yet in this commit (work in progress; the design claims it, see DESIGN.md §8)"})
json.dump(m, open('/verif/MANIFEST.json','w'), indent=1)
print("checks:", len(m['checks']), "n/a:", len(m['not_applicable']))
