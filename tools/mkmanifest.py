#!/usr/bin/env python3
"""Regenerates MANIFEST.json from the table below (developer tool)."""
import json, subprocess
hooks_commits = subprocess.run(['git','-C','/repo','log','--format=%H %s'],capture_output=True,text=True).stdout.strip().split('\n')
hook_shas = [l.split()[0] for l in hooks_commits if 'verif hooks' in l]
ENV = "GOFLAGS=-mod=mod GOPROXY=off"
checks = {
 'C01': ("reference-model monitor: exact winding oracle beside every execution, 16 (op,rule) per input; discard/join event hooks", "§8 C01"),
 'C02': ("structural + exact-winding monitor of every returned solution; option-setter hook", "§8 C02"),
 'C03': ("recover()/step-budget/process-supervisor monitor over hostile inputs and all enum values; exported-API coverage asserted from go/parser", "§8 C03"),
 'C04': ("tree-vs-flat differential + exact containment oracle over every pair of tree polygons", "§8 C04"),
 'C05': ("reference-model monitor: exact point-in-region + distance-band oracle for offsets of validated simple polygon sets", "§8 C05"),
 'C06': ("reference-model monitor: exact winding inside/outside the rectangle, fast-path and reuse checks", "§8 C06"),
 'C07': ("differential monitor: D entry points vs 64-bit functions on exactly re-quantised input (big.Float quantisation oracle)", "§8 C07"),
 'C08': ("reference-model monitor: exact segment-intersection oracle for the swept region with stability margins", "§8 C08"),
 'C09': ("reference-model monitor: coverage of sampled subject-line points vs exact winding about the closed inputs", "§8 C09"),
 'C10': ("reference-model monitor: stroke band oracle per sub-check; cap_skipped hook events attribute the known end-cap finding", "§8 C10"),
 'C11': ("reference-model monitor: interval coverage, monotone-order matching and bounds of clipped lines", "§8 C11"),
 'C12': ("sequential history checker against an executable model (fresh-object replay) + scratch-state invariant hook + input-immutability monitor", "§8 C12"),
 'C13': ("metamorphic monitor (translate / scale) cross-checked by the exact 128-bit oracle at the transformed magnitude", "§8 C13"),
 'C14': ("reference-model monitor: math/big beside predicate aliases; exhaustive micro-grid + random hard operands", "§8 C14"),
 'C15': ("reference-model monitor: exact subsequence/area/winding/collinearity checks; as-built algorithm model only for attribution", "§8 C15"),
 'C16': ("reference-model monitor: exact perpendicular distances, epsilon-0 area, translation/scale invariance of the retained set", "§8 C16"),
 'C17': ("metamorphic monitor over 16 spellings per input + in-process and cross-process byte determinism", "§8 C17"),
 'C18': ("Go race detector over 16/64-goroutine workloads on shared inputs + result monitor against a sequential run; yield hook", "§8 C18"),
 'C19': ("metamorphic monitor over the library's own five results per input: exact areas + pointwise identities", "§8 C19"),
}
GEN = "Exploration: the property held on the executions observed in this run (counts in the evidence file); nothing is proved and behaviour on inputs not generated is unknown. "
TEXT = {
 'C01': GEN+"Right level because the property quantifies over all inputs and its meaning (a region) is computable exactly per point, so an exact oracle beside real executions is the strongest evidence this technique family offers; quick covers ~60k inputs x 16 operations, thorough ~1M.",
 'C02': GEN+"Structural conditions are checked on every returned path, the winding condition at sampled points > 2 units from solution edges, with the reverse/preserve-collinear options reached through a hook.",
 'C03': GEN+"Every exported callable is invoked (asserted against the parsed source) on degenerate shapes and every enum value incl. out-of-range ones; hangs are decided by a logical step budget, fatal crashes and unbounded allocation by the process supervisor.",
 'C04': GEN+"All pairs of tree polygons are tested for containment where that is decidable outside the rounding band; the tree is compared with the flat result polygon by polygon.",
 'C05': GEN+"Inputs are validated as simple; membership is exact, distances carry a conservative margin; all 4 joins, both signs, miter limits, arc tolerances, multi-group objects.",
 'C06': GEN+"Exact winding comparison inside and outside the rectangle for random, snapped, enclosing and disjoint rectangles; self-intersecting families are a closed pool; a fraction of the fresh cases is shifted so that a crossing or corner lies exactly on the origin.",
 'C07': GEN+"Differential: every D entry point against its 64-bit counterpart on the library's own quantisation, which is itself checked against big.Float rounding; all 17 precisions plus out-of-range ones.",
 'C08': GEN+"The oracle decides 'pattern boundary meets path' exactly and only at points where the answer is provably stable over the 2-unit neighbourhood.",
 'C09': GEN+"Sampled points of the subject lines away from closed edges are classified by exact winding and compared with coverage by the open solution for all 4 clip types; all families are fresh per seed since the two open-path repairs.",
 'C10': GEN+"Sub-checks (canonical result, reach bound, interior coverage, end segments and caps, joined loops, single points) are separate so that the known end-cap finding does not blind the others.",
 'C11': GEN+"Vertices, order and coverage are checked for random, snapped and two-point lines through all four entry points.",
 'C12': GEN+"Random sequential histories on one object (AddPaths or path-by-path AddPath) are compared step by step with a fresh-object replay of the model state; scratch state is asserted empty through a hook at every quiescent point; ~20 library calls are bracketed by deep copies of their inputs.",
 'C13': GEN+"Translations up to 2^52, scalings up to 2^61, and small shifts that put a notable point exactly on the origin, of inputs whose untransformed result is right; failures beyond the int64-product overflow threshold (differences > 2^31) are a listed finding recognised by magnitude.",
 'C14': GEN+"Exhaustive only for the micro-domain [-2,2]^2 point triples; random hard operands elsewhere. Exact reference arithmetic makes every evaluation a decided comparison.",
 'C15': GEN+"Millions of tiny and planted-collinear paths; every failure is either unattributed (violation) or equals an as-built model run with the documented faulty sign / the upstream algorithm (listed findings).",
 'C16': GEN+"Zig-zags, near-collinear chains, wrap-around and random paths at magnitudes to 2^29, with exact distances and invariance checks; float variant in float arithmetic.",
 'C17': GEN+"16 spellings per input compared pointwise with the base solution; equal inputs must give equal bytes in-process and in two different worker processes.",
 'C18': GEN+"The race detector sees only interleavings that occur: 8 (quick) / 80 (thorough) repetitions x 16 or 64 goroutines x 84 calls (42 APIs incl. large inputs, 3 input sets), with a yield hook in half of them; results are compared with a sequential run.",
 'C19': GEN+"Identities between the library's own results are checked with exact areas and at sampled points on small and large (thousands of vertices) inputs.",
}
NOTE = "Trusted: the harness oracles (128-bit/ math/big integer arithmetic, float distance with conservative margin), the Go toolchain, and that `-tags verif` hooks only observe. Residual genuine defects met in the closed pool are listed in KNOWN_FINDINGS.json by input or call-site class."
m = {
 "version": 1,
 "setup_cmd": "cd /verif/harness && cp /repo/go.sum go.sum && GOFLAGS=-mod=mod GOPROXY=off go build -tags verif -o /verif/bin/vcheck ./cmd/vcheck && GOFLAGS=-mod=mod GOPROXY=off go build -race -tags verif -o /verif/bin/vcheck-race ./cmd/vcheck",
 "hooks": {
  "guard": "verif (Go build tag)",
  "enable": "go build -tags verif (the harness module replaces github.com/bolom009/go-clipper2 => /repo and is rebuilt by every check)",
  "baseline_off_cmd": "cd /repo && GOFLAGS=-mod=mod GOPROXY=off go test -vet=off -count=1 -json ./...",
  "source_commits": hook_shas,
  "add_only": True,
 },
 "engines": [{"name": "vcheck", "path": "/verif/harness", "serves_properties": sorted(checks), "kind_free_text": "Go runtime monitors: parent/worker processes, reference-model oracles, hook-event consumers, known-finding matcher, evidence writer"}],
 "checks": [],
 "notes": "Technique family: runtime monitoring. Exit codes: 0 held / 1 violation (VIOLATION line) / 2 build failure / 3 inconclusive. See DESIGN.md.",
 "not_applicable": [],
}
allp = [json.loads(l)['id'] for l in open('/verif/properties.jsonl')]
for pid in allp:
    if pid in checks:
        tech, ref = checks[pid]
        m['checks'].append({
         "property_id": pid,
         "quick_cmd": "./check %s quick" % pid,
         "thorough_cmd": "./check %s thorough" % pid,
         "evidence_file": "/verif/evidence/%s.json" % pid,
         "replay_cmd_template": "./check %s --replay {path}" % pid,
         "engine": "vcheck",
         "level_claimed": {"category": "exploration", "text": TEXT[pid], "design_ref": ref},
         "level_note": NOTE,
         "technique": "runtime monitoring: " + tech,
        })
    else:
        m['not_applicable'].append({"property_id": pid, "reason": "no check registered"})
json.dump(m, open('/verif/MANIFEST.json','w'), indent=1)
print("checks:", len(m['checks']), "n/a:", len(m['not_applicable']))
