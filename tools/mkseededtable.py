#!/usr/bin/env python3
"""Developer tool: print the markdown table of DESIGN.md section 10 from seeded/*/meta.json."""
import json, glob, os, re
rows = []
def key(d):
    b = os.path.basename(d.rstrip('/'))
    return (b[:3], b[3:])
for d in sorted(glob.glob('/verif/seeded/C*/'), key=key):
    m = json.load(open(d + 'meta.json'))
    i = os.path.basename(d.rstrip('/'))
    def clean(s, n):
        s = re.sub(r'\s+', ' ', str(s)).replace('|', '/')
        return s[:n]
    res = '; '.join('%s: %s' % (c['check'], re.sub(r',first=.*', '', c['result'])) for c in m.get('checks_run', []))
    first = ''
    for c in m.get('checks_run', []):
        mm = re.search(r'first=\[(.*)\]', c['result'])
        if mm and mm.group(1):
            first = mm.group(1)
            break
    ch = m.get('confirmed_here', {})
    ok = 'yes' if ch and all(v for k, v in ch.items() if k != 'how') else 'NO'
    if m.get('obsolete'):
        ok = 'yes (patch obsolete since f0a8397, see meta.json)'
    rows.append('| %s | %s | %s | %s | %s | %s | %s |' % (i, m['property'], clean(m['summary'], 150), clean(m.get('needs', ''), 150), clean(res, 60), clean(first, 90), ok))
print('| id | property | change (author\'s summary, abridged) | needs | quick result (after strengthening) | first witness | ok |')
print('|---|---|---|---|---|---|---|')
print('\n'.join(rows))
