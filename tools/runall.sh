#!/bin/bash
# tools/runall.sh [tier] — developer tool: run every registered check once (VERIF_SEED from the environment) and summarise.
TIER="${1:-quick}"
cd "$(dirname "$0")/.."
for p in C01 C02 C03 C04 C05 C06 C07 C08 C09 C10 C11 C12 C13 C14 C15 C16 C17 C18 C19; do
  s=$(date +%s)
  ./check $p $TIER > /tmp/runall.$p.out 2>&1; rc=$?
  e=$(( $(date +%s) - s ))
  echo "$p exit=$rc ${e}s viol=$(grep -c '^VIOLATION' /tmp/runall.$p.out) kf=$(grep -c '^KNOWN-FINDING' /tmp/runall.$p.out) inconcl=$(grep -c '^INCONCLUSIVE' /tmp/runall.$p.out) :: $(grep -E "^$p (quick|thorough)" /tmp/runall.$p.out | cut -c1-130)"
done
