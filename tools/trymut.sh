#!/bin/bash
# tools/trymut.sh <patch.diff> <Cxx> [tier]   — developer tool: apply a seeded change to /repo, run one check, undo.
set -u
PATCH="$1"; PROP="$2"; TIER="${3:-quick}"
cd /repo || exit 2
if ! git diff --quiet; then echo "refusing: /repo has uncommitted changes"; exit 2; fi
git apply "$PATCH" || { echo "patch does not apply"; exit 2; }
cd /verif && ./check "$PROP" "$TIER" > /tmp/trymut.$$.log 2>&1; rc=$?
git -C /repo checkout -- . 
echo "exit=$rc violations=$(grep -c '^VIOLATION' /tmp/trymut.$$.log) $(grep -E "^$PROP (quick|thorough)" /tmp/trymut.$$.log | cut -c1-160)"
grep -E "^VIOLATION|^  case=" /tmp/trymut.$$.log | head -4 | cut -c1-200
grep -E "INCONCLUSIVE" /tmp/trymut.$$.log | head -3 | cut -c1-300
rm -f /tmp/trymut.$$.log
