#!/bin/bash
# tools/evalseeded.sh <ID> <prop> [<prop>...]  — developer tool: verify a seeded fault (applies, builds, 44 tests pass,
# demo fails with / passes without) and run the given checks (quick) against it; records the outcome in seeded/<ID>/meta.json.
set -u
ID="$1"; shift
D=/verif/seeded/$ID
export GOFLAGS=-mod=mod GOPROXY=off
cd /repo || exit 2
if ! git diff --quiet; then echo "refusing: /repo has uncommitted changes"; exit 2; fi
if grep -q '"obsolete"' "$D/meta.json"; then echo "$ID: marked obsolete in meta.json (patch no longer applicable), skipped"; exit 0; fi
git apply --check "$D/patch.diff" || { echo "$ID: patch does not apply to current /repo"; exit 2; }
# demo passes without the change (demo2_test.go, where present, replaces a demonstration that a later fix made stale)
DEMO="$D/demo_test.go"; [ -f "$D/demo2_test.go" ] && DEMO="$D/demo2_test.go"
cp "$DEMO" /repo/zz_demo_test.go
TAGS=""; grep -q "go:build verif" "$DEMO" && TAGS="-tags verif"
RACE=""; case "$ID" in C18*) RACE="-race";; esac
go test $RACE $TAGS -count=1 -timeout 120s -run 'Demo|demo|Seeded|C[0-9][0-9]' . > /tmp/es.$$.clean 2>&1; clean=$?
git apply "$D/patch.diff"
go build ./... > /dev/null 2>&1; b1=$?; go build -tags verif ./... >/dev/null 2>&1; b2=$?
go test $RACE $TAGS -count=1 -timeout 120s -run 'Demo|demo|Seeded|C[0-9][0-9]' . > /tmp/es.$$.mut 2>&1; mut=$?
rm -f /repo/zz_demo_test.go
go test -count=1 ./... > /tmp/es.$$.suite 2>&1; suite=$?
res=""
# the checks below run against the CHANGED tree: what they write (evidence, replay files) must not stay in /verif
ls /verif/replay > /tmp/es.$$.replaylist
for P in "$@"; do
  cp /verif/evidence/$P.json /tmp/es.$$.ev.$P 2>/dev/null
  (cd /verif && ./check "$P" quick > /tmp/es.$$.$P 2>&1); rc=$?
  nv=$(grep -c '^VIOLATION' /tmp/es.$$.$P)
  first=$(grep -A1 '^VIOLATION' /tmp/es.$$.$P | grep 'case=' | head -1 | sed 's/^ *//' | cut -c1-140)
  res="$res$P:exit=$rc,violation_lines=$nv,first=[$first];"
  if [ -f /tmp/es.$$.ev.$P ]; then cp /tmp/es.$$.ev.$P /verif/evidence/$P.json; else rm -f /verif/evidence/$P.json; fi
done
ls /verif/replay | comm -13 /tmp/es.$$.replaylist - | (cd /verif/replay && xargs -r rm -f)
git -C /repo checkout -- . 
echo "$ID build=$b1/$b2 suite_with_change=$suite demo_without=$clean demo_with=$mut :: $res"
python3 - "$D/meta.json" "$b1" "$b2" "$suite" "$clean" "$mut" "$res" <<'PY'
import json,sys
p,b1,b2,suite,clean,mut,res=sys.argv[1:8]
m=json.load(open(p))
m['confirmed_here']={'builds':b1=='0' and b2=='0','suite_44_tests_pass_with_change':suite=='0','demo_passes_without_change':clean=='0','demo_fails_with_change':mut!='0',
 'how':'tools/evalseeded.sh: git apply patch.diff in /repo, go build (with and without -tags verif), go test ./..., demo_test.go copied in and run with/without the change, ./check <prop> quick, then git checkout -- .'}
m['checks_run']=[dict(zip(['check','result'],r.split(':',1))) for r in res.strip(';').split(';') if r]
json.dump(m,open(p,'w'),indent=1)
PY
rm -f /tmp/es.$$.*
