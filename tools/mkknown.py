#!/usr/bin/env python3
"""Developer tool (never run by a check): turn a VERIF_DUMP failure dump into
input-kind entries of KNOWN_FINDINGS.json. Only closed-pool cases (stream 0)
are accepted; fresh-seed cases must never be listed by input.

usage: mkknown.py <dump.json> <what text> [--apply]
"""
import json, sys, collections
dump, what = sys.argv[1], sys.argv[2]
apply = '--apply' in sys.argv
fs = json.load(open(dump)) or []
by = collections.OrderedDict()
skipped = 0
for f in fs:
    if f.get('class'):
        continue
    if not f['case'].endswith('/0'):
        skipped += 1
        continue
    k = (f['property'], f['case'], f['digest'])
    by.setdefault(k, set()).add(f['sub'])
path = '/verif/KNOWN_FINDINGS.json'
kf = json.load(open(path))
have = {(e['property'], e.get('case'), e.get('digest')): e for e in kf['findings'] if e['kind'] == 'input'}
new = 0
for (prop, case, dig), subs in by.items():
    e = have.get((prop, case, dig))
    if e:
        merged = sorted(set(e.get('subs', [])) | subs)
        if merged != e.get('subs'):
            e['subs'] = merged; new += 1
        continue
    kf['findings'].append({'id': 'KF-%s-%s' % (prop, case.replace('/', '-')), 'property': prop, 'kind': 'input',
                           'case': case, 'digest': dig, 'subs': sorted(subs), 'what': what})
    new += 1
print('entries new/updated:', new, 'non-pool failures skipped:', skipped)
if apply:
    json.dump(kf, open(path, 'w'), indent=1)
    print('written')
