package props

import (
	"fmt"
	"math"

	clip "github.com/bolom009/go-clipper2"

	"verifharness/gen"
	"verifharness/oracle"
	"verifharness/run"
)

// C13 — results do not depend on coordinate magnitude within the advertised range.

var c13Specs = []famSpec{
	{Family: "mag-translate-bool", FreshQ: 5000, FreshT: 250000},
	{Family: "mag-scale-bool", FreshQ: 5000, FreshT: 250000},
	{Family: "mag-translate-misc", FreshQ: 3000, FreshT: 150000},
	{Family: "mag-scale-misc", FreshQ: 3000, FreshT: 150000},
	{Family: "mag-anchor-bool", FreshQ: 3000, FreshT: 150000},
	{Family: "mag-anchor-misc", FreshQ: 4000, FreshT: 200000},
}

func init() {
	register(&run.Prop{
		ID: "C13",
		Rule: "metamorphic + exact oracle at large magnitudes. mag-translate-*: a base input (generic random / nested / rectilinear, extent <= 2^21) is translated by a random vector with components up to +-(2^52 - extent); mag-scale-*: a small base input is multiplied by 2^k so that the largest coordinate reaches 2^30 .. 2^61. " +
			"bool: all 4 clip types x 1 fill rule on the transformed input, result compared with the exact winding oracle (128-bit, valid to 2^62) at the images of points that are > 2 units from every base edge; misc: Area64 against the exact shoelace (when it fits int64), PointInPolygon against exact classification, RectClipPaths64 winding inside the transformed rectangle, InflatePaths64 of the translated input against the translated result of the base input (band 2+1), SimplifyPath64 retained vertices invariant. " +
			"mag-anchor-*: the small end of the range - the base input is translated so that one of its notable points (vertex, rectangle corner, rounded edge/edge or edge/rectangle intersection) lies exactly at the origin or on an axis, and is judged by the same oracles. " +
			"Non-trivial = transformed magnitude >= 2^31 (anchor families: any) and >= 1 eligible point compared; distinct by (base digest, transform).",
		Assumptions: []string{"failures on inputs whose coordinate DIFFERENCES exceed 2^31 are attributed to the known finding 'int64 products of coordinate differences overflow' by that magnitude test alone; below it nothing is attributed"},
		Floor:       500,
		Cases:       func(tier string, seed uint64) []run.CaseID { return buildCases(c13Specs, tier, seed) },
		RunCase:     c13Run,
	})
}

func extentOf(sets ...Paths) int64 {
	x0, y0, x1, y1, ok := oracle.Bounds(sets...)
	if !ok {
		return 0
	}
	return max(x1-x0, y1-y0)
}

func overflowClass(sets ...Paths) string {
	if extentOf(sets...) > int64(1)<<31 {
		return "coordinate-differences-beyond-2^31"
	}
	return ""
}

func c13Base(r *gen.Rng, small bool) (subj, clp Paths) {
	switch r.Intn(3) {
	case 0:
		R := gen.PickOf(r, int64(50), 1000, 100000, 1<<20)
		if small {
			R = gen.PickOf(r, int64(20), 100, 1000)
		}
		subj = gen.RandPaths(r, 1+r.Intn(2), 8, R)
		clp = gen.RandPaths(r, r.Intn(3), 8, R)
	case 1:
		R := gen.PickOf(r, 60.0, 3000.0, 500000.0)
		if small {
			R = gen.PickOf(r, 40.0, 400.0)
		}
		subj, _ = gen.Nested(r, 1+r.Intn(2), 4, R, true, r.Chance(0.3))
		clp, _ = gen.Nested(r, 1, 3, R*0.8, true, false)
		clp = gen.Translate(clp, int64(R/3), int64(-R/4))
	default:
		subj, clp, _ = gen.Rectilinear(r)
		if !small && r.Bool() {
			subj, clp = gen.ScaleInt(subj, 1000), gen.ScaleInt(clp, 1000)
		}
	}
	if clp == nil {
		clp = Paths{}
	}
	return
}

func c13Run(ctx *run.Ctx, id run.CaseID) {
	// inputs have at most a few dozen vertices: a small logical step budget turns the endless loops that
	// overflowing arithmetic causes at huge magnitudes into prompt sentinel panics instead of gigabytes of allocation
	clip.VerifSetStepBudget(1 << 20)
	r := gen.ForCase(id.Family, id.Index, id.Stream)
	scale := id.Family == "mag-scale-bool" || id.Family == "mag-scale-misc"
	anchor := id.Family == "mag-anchor-bool" || id.Family == "mag-anchor-misc"
	subj, clp := c13Base(r, scale)
	ext := max(gen.MaxAbs(subj, clp), 1)
	var tx, ty, s int64 = 0, 0, 1
	var anchorRect *rectI
	if anchor {
		// the other end of the magnitude range: a small translation that puts a notable point of the input (a vertex, a
		// rectangle corner, a rounded edge/edge or edge/rectangle-side intersection) exactly at the origin or on an axis,
		// where zero-valued coordinates and zero-value sentinels live
		ra := gen.ForCase(id.Family+"#anchor", id.Index, id.Stream)
		q := pickRect(ra, subj, ra.Chance(0.3))
		anchorRect = &q
		rectPath := Path{{X: q.L, Y: q.T}, {X: q.R, Y: q.T}, {X: q.R, Y: q.B}, {X: q.L, Y: q.B}}
		var pts []Pt
		var segs [][2]Pt
		sets := []Paths{subj, clp}
		if id.Family == "mag-anchor-misc" {
			sets = []Paths{subj, {rectPath}}
			pts = append(pts, rectPath...)
		}
		for _, ps := range sets {
			for _, p := range ps {
				pts = append(pts, p...)
				for i := range p {
					segs = append(segs, [2]Pt{p[i], p[(i+1)%len(p)]})
				}
			}
		}
		var xs []Pt
		for i := 0; i < len(segs) && len(xs) < 200; i++ {
			for j := i + 1; j < len(segs); j++ {
				if x, y, ok := oracle.SegSegIntersectF(segs[i][0], segs[i][1], segs[j][0], segs[j][1]); ok {
					xs = append(xs, Pt{X: int64(math.Round(x)), Y: int64(math.Round(y))})
				}
			}
		}
		var a Pt
		if len(xs) > 0 && ra.Chance(0.7) {
			a = xs[ra.Intn(len(xs))]
		} else if len(pts) > 0 {
			a = pts[ra.Intn(len(pts))]
		}
		tx, ty = -a.X, -a.Y
		switch ra.Intn(5) {
		case 0:
			tx += ra.Range(-3, 3) // on the y-axis only (nearly)
		case 1:
			ty += ra.Range(-3, 3)
		}
	} else if scale {
		// choose k so that the largest coordinate lands in [2^30, 2^61]
		target := uint(30 + r.Intn(32))
		k := uint(0)
		for (ext<<(k+1)) <= int64(1)<<target && k < 60 {
			k++
		}
		s = int64(1) << k
	} else {
		lim := (int64(1) << 52) - ext - 1
		mag := gen.PickOf(r, int64(1)<<31, 1<<36, 1<<44, lim)
		tx, ty = r.Range(-mag, mag), r.Range(-mag, mag)
		if r.Bool() {
			tx = gen.PickOf(r, lim, -lim)
		}
	}
	T := func(p Pt) Pt { return Pt{X: p.X*s + tx, Y: p.Y*s + ty} }
	tS, tC := mapPaths(subj, T), mapPaths(clp, T)
	in := map[string]any{"subject": subj, "clip": clp, "scale": s, "translate": []int64{tx, ty}}
	digest := run.Digest(in)
	class := overflowClass(tS, tC)
	magn := gen.MaxAbs(tS, tC)
	fail := func(sub, detail string) {
		ctx.Fail(digest, sub, class, fmt.Sprintf("%s; base subject=%v clip=%v scale=%d translate=(%d,%d)", detail, subj, clp, s, tx, ty), in)
	}
	edges := oracle.NewEdges(true, subj, clp)
	rp := gen.ForCase(id.Family+"#pts", id.Index, id.Stream)
	var elig []Pt
	for _, p := range candidates(rp, 40, subj, clp) {
		if edges.FartherThan(p, 2) {
			elig = append(elig, p)
		}
	}
	compared := 0
	switch id.Family {
	case "mag-translate-bool", "mag-scale-bool":
		fr := fillRules[r.Intn(4)]
		for _, ct := range clipTypes {
			tag := ctName(ct) + "/" + frName(fr)
			var sol, baseSol Paths
			panicked := false
			func() {
				defer func() {
					if x := recover(); x != nil {
						panicked = true
						fail("panic/"+tag, fmt.Sprintf("BooleanOpPaths64 on the transformed input panicked: %v", x))
					}
				}()
				sol = clip.BooleanOpPaths64(ct, tS, tC, fr)
				baseSol = clip.BooleanOpPaths64(ct, subj, clp, fr)
			}()
			if panicked {
				continue
			}
			ctx.Eval(2)
			// magnitude independence is judged only where the untransformed result is itself right
			// (a wrong base result is C01's finding, not a dependence on magnitude)
			baseOK := true
			for _, p := range elig {
				ws, _ := oracle.Winding(subj, p)
				wc, _ := oracle.Winding(clp, p)
				w, on := oracle.Winding(baseSol, p)
				if (w != 0 || on) != oracle.BoolOp(ct, oracle.Fill(fr, ws), oracle.Fill(fr, wc)) {
					baseOK = false
					break
				}
			}
			if !baseOK {
				ctx.Count("base_result_already_wrong_skipped", 1)
				continue
			}
			for _, p := range elig {
				ws, _ := oracle.Winding(subj, p)
				wc, _ := oracle.Winding(clp, p)
				want := oracle.BoolOp(ct, oracle.Fill(fr, ws), oracle.Fill(fr, wc))
				w, on := oracle.Winding(sol, T(p))
				compared++
				if (w != 0 || on) != want {
					if class == "" {
						class = discardClassPoint(tS, tC, ct, fr, T(p))
					}
					fail("region/"+tag, fmt.Sprintf("at image %s of base point %s: expected inside=%v, solution winding=%d; solution=%v", fmtPt(T(p)), fmtPt(p), want, w, sol))
					break
				}
			}
		}
	default:
		// Area64
		for i, p := range tS {
			a2 := oracle.Area2(p)
			if v, ok := a2.FitsInt64(); ok {
				var got float64
				if ctx.Guard(digest, "Area64", in, func() { got = clip.Area64(p) }) {
					ctx.Eval(1)
					compared++
					want := float64(v) / 2
					if got != want && math.Abs(got-want) > math.Abs(want)*2e-16 {
						fail("Area64", fmt.Sprintf("Area64(path %d of the transformed subject)=%v, exact %v", i, got, want))
					}
				}
			}
		}
		// PointInPolygon
		flat := true
		if len(subj) > 0 {
			for _, v := range subj[0] {
				if v.Y != subj[0][0].Y {
					flat = false
				}
			}
		}
		if len(subj) > 0 && len(subj[0]) >= 3 && !flat { // C14's domain: polygons not contained in one horizontal line
			for k := 0; k < 12; k++ {
				var p Pt
				if k < 6 {
					p = subj[0][rp.Intn(len(subj[0]))]
					p = Pt{X: p.X + rp.Range(-1, 1), Y: p.Y + rp.Range(-1, 1)}
				} else {
					x0, y0, x1, y1, _ := oracle.Bounds(Paths{subj[0]})
					p = Pt{X: rp.Range(x0, x1), Y: rp.Range(y0, y1)}
				}
				var got clip.PointInPolygonResult
				if !ctx.Guard(digest, "PointInPolygon", in, func() { got = clip.PointInPolygon(T(p), tS[0]) }) {
					break
				}
				ctx.Eval(1)
				compared++
				if want := exactPIP(p, subj[0]); got != want {
					fail("PointInPolygon", fmt.Sprintf("PointInPolygon(image of %s)=%s, exact %s", fmtPt(p), pipName(got), pipName(want)))
					break
				}
			}
		}
		// RectClipPaths64 (beyond the 2^31 overflow threshold the polygon clipper can allocate without bound:
		// that was observed (memory guard, step budget) and is part of the listed overflow finding; it is not exercised
		// there any more because each such run costs seconds and gigabytes without adding information)
		if class != "" {
			ctx.Count("rectclip_skipped_beyond_overflow_threshold", 1)
			goto afterRect
		}
		{
			q := pickRect(r, subj, false)
			if anchorRect != nil {
				q = *anchorRect
			}
			tq := rectI{q.L*s + tx, q.T*s + ty, q.R*s + tx, q.B*s + ty}
			var rc Paths
			if ctx.Guard(digest, "RectClipPaths64", in, func() { rc = clip.RectClipPaths64(tq.lib(), tS) }) {
				ctx.Eval(1)
				sedges := oracle.NewEdges(true, subj)
				rectPath := Paths{{{X: q.L, Y: q.T}, {X: q.R, Y: q.T}, {X: q.R, Y: q.B}, {X: q.L, Y: q.B}}}
				redges := oracle.NewEdges(true, rectPath)
				for _, p := range candidates(rp, 30, subj, rectPath) {
					if !redges.FartherThan(p, 2) || !sedges.FartherThan(p, 2) {
						continue
					}
					inside := p.X > q.L && p.X < q.R && p.Y > q.T && p.Y < q.B
					want := 0
					if inside {
						want, _ = oracle.Winding(subj, p)
					}
					got, _ := oracle.Winding(rc, T(p))
					compared++
					if got != want {
						// self-intersecting inputs have listed rect-clip findings at every magnitude (C06): only simple bases are enforced here
						if oracle.IsSimpleSet(subj) {
							fail("RectClipPaths64", fmt.Sprintf("winding %d at image of %s, expected %d; rect=%+v result=%v", got, fmtPt(p), want, tq, rc))
						}
						break
					}
				}
			}
		}
	afterRect:
		if !scale {
			// InflatePaths64: translated input vs translated result of the base input
			if oracle.IsSimpleSet(subj) {
				d := gen.PickOf(r, 3.0, -3, 10, 40)
				jt := clip.JoinType(r.Intn(4))
				var o0, o1 Paths
				if ctx.Guard(digest, "InflatePaths64", in, func() {
					o0 = clip.InflatePaths64(subj, d, jt, clip.Polygon)
					o1 = clip.InflatePaths64(tS, d, jt, clip.Polygon)
				}) {
					ctx.Eval(2)
					e0 := oracle.NewEdges(true, o0)
					for _, p := range candidates(rp, 30, o0) {
						if !e0.FartherThan(p, 3) {
							continue
						}
						w0, _ := oracle.Winding(o0, p)
						w1, _ := oracle.Winding(o1, T(p))
						compared++
						if (w0 != 0) != (w1 != 0) {
							if m := max(tx, -tx, ty, -ty); m >= int64(1)<<50 {
								class = "offset-float-cancellation-at-2^50"
							}
							fail("InflatePaths64/"+jtName(jt), fmt.Sprintf("offset by %v: region differs at image of %s (winding %d vs %d); base result=%v translated-input result=%v", d, fmtPt(p), w0, w1, o0, o1))
							break
						}
					}
				}
			}
		}
		// SimplifyPath64: retained vertices invariant
		if len(subj) > 0 && len(subj[0]) >= 4 {
			eps := gen.PickOf(r, 0, 1.5, float64(ext)/50)
			cl := r.Bool()
			var a, b Path
			if ctx.Guard(digest, "SimplifyPath64", in, func() {
				a = clip.SimplifyPath64(subj[0], eps, cl)
				b = clip.SimplifyPath64(tS[0], eps*float64(s), cl)
			}) {
				ctx.Eval(2)
				compared++
				ok := len(a) == len(b)
				for i := 0; ok && i < len(a); i++ {
					ok = T(a[i]) == b[i]
				}
				if !ok {
					fail("SimplifyPath64", fmt.Sprintf("epsilon %v: base keeps %v, transformed input keeps %v", eps, a, b))
				}
			}
		}
	}
	ctx.Count("points_compared", int64(compared))
	if (magn >= int64(1)<<31 || anchor) && compared > 0 {
		ctx.NontrivialHash(run.DigestInts(int64(id.Index), int64(id.Stream), s, tx, ty))
		if ctx.WantSample() {
			ctx.Sample(map[string]any{"case": id.String(), "input": in})
		}
	}
}
