package props

import (
	"fmt"
	"math"

	clip "github.com/bolom009/go-clipper2"

	"verifharness/gen"
	"verifharness/oracle"
	"verifharness/run"
)

// C08 — Minkowski sum and difference cover exactly the swept region.

var c08Specs = []famSpec{
	{Family: "mink-convex", FreshQ: 2000, FreshT: 100000},
	{Family: "mink-degenerate", FreshQ: 1000, FreshT: 40000},
	{Family: "mink-general", Pool: 150000, PoolQ: 3000},
	{Family: "mink-convex-small", Pool: 60000, PoolQ: 1500},
	{Family: "mink-degenerate-small", Pool: 30000, PoolQ: 750},
	{Family: "mink-big", FreshQ: 150, FreshT: 4000},
}

func init() {
	register(&run.Prop{
		ID: "C08",
		Rule: "case = pattern polygon + path + closed/open flag. mink-convex: convex patterns (both orientations) x star/simple or random paths; mink-general: non-convex and self-intersecting patterns and paths; mink-degenerate: 1-/2-point and collinear paths, tiny patterns; mink-big: 3..12-vertex patterns x star paths of 100..630 vertices (300..8000 swept quads); the *-small and mink-general families (coordinates down to +-40, where unit differences abound) are closed pools, the fresh families use magnitudes 5000..2^26. " +
			"Oracle per sample point p: translate the pattern boundary (reflected through the origin for the sum) to p and test with exact segment predicates whether it meets the path; p is eligible only if that answer is provably constant on its 2-unit neighbourhood (minimum distance > 2.5, or a transversal crossing with all four end points > 2.5 from the other segment's line). " +
			"Checked: inside(result,p) equals the oracle for MinkowskiSum64 and MinkowskiDiff64; result canonical (C02 structural + winding in {0,1}); for closed paths sum(A,B) and sum(B,A) agree where both are eligible. Non-trivial = >= 1 eligible point inside and >= 1 eligible point outside the result; distinct by input digest.",
		Assumptions: []string{"exact segment intersection by 128-bit cross products; stability margins in float64"},
		Floor:       300,
		Cases:       func(tier string, seed uint64) []run.CaseID { return buildCases(c08Specs, tier, seed) },
		RunCase:     c08Run,
	})
}

type minkCase struct {
	Pattern Path `json:"pattern"`
	Path    Path `json:"path"`
	Closed  bool `json:"closed"`
}

func convexPoly(r *gen.Rng, rad float64, n int, ccw bool) Path {
	// points on an ellipse at increasing angles -> convex
	p := make(Path, 0, n)
	a, b := rad, rad*r.FloatRange(0.4, 1)
	base := r.Float() * 2 * math.Pi
	for i := 0; i < n; i++ {
		t := base + 2*math.Pi*(float64(i)+0.5*r.Float())/float64(n)
		q := Pt{X: int64(math.Round(a * math.Cos(t))), Y: int64(math.Round(b * math.Sin(t)))}
		if len(p) > 0 && p[len(p)-1] == q {
			continue
		}
		p = append(p, q)
	}
	if !ccw {
		p = gen.Reverse(p)
	}
	return p
}

func minkInput(id run.CaseID) minkCase {
	r := gen.ForCase(id.Family, id.Index, id.Stream)
	var mc minkCase
	mc.Closed = r.Bool()
	R := gen.PickOf(r, int64(40), 300, 5000, 1<<20)
	fam := id.Family
	switch fam {
	case "mink-convex", "mink-degenerate": // fresh families: generic magnitudes only (small dense coordinates live in the closed pools)
		R = gen.PickOf(r, int64(5000), 1<<20, 1<<26)
	case "mink-convex-small":
		R, fam = gen.PickOf(r, int64(40), 300), "mink-convex"
	case "mink-degenerate-small":
		R, fam = gen.PickOf(r, int64(40), 300), "mink-degenerate"
	}
	switch fam {
	case "mink-convex":
		mc.Pattern = convexPoly(r, float64(R)*r.FloatRange(0.05, 0.4), 3+r.Intn(7), r.Bool())
		if r.Bool() {
			mc.Path = gen.StarPoly(r, r.Range(-R, R), r.Range(-R, R), float64(R)*0.5, float64(R), 3+r.Intn(8), r.Bool())
		} else {
			mc.Path = gen.RandPaths(r, 1, 7, R)[0]
		}
	case "mink-degenerate":
		mc.Pattern = gen.RandPaths(r, 1, 5, max(R/10, 3))[0]
		if r.Chance(0.3) {
			mc.Pattern = convexPoly(r, float64(R)*0.2, 4, r.Bool())
		}
		switch r.Intn(4) {
		case 0:
			mc.Path = Path{{X: r.Range(-R, R), Y: r.Range(-R, R)}}
		case 1:
			mc.Path = Path{{X: r.Range(-R, R), Y: r.Range(-R, R)}, {X: r.Range(-R, R), Y: r.Range(-R, R)}}
		case 2: // collinear
			a := Pt{X: r.Range(-R, R), Y: r.Range(-R, R)}
			v := Pt{X: r.Range(-5, 5), Y: r.Range(-5, 5)}
			for i := 0; i < 3+r.Intn(3); i++ {
				t := r.Range(-R/8, R/8)
				mc.Path = append(mc.Path, Pt{X: a.X + t*v.X, Y: a.Y + t*v.Y})
			}
		default:
			p := gen.RandPaths(r, 1, 5, R)[0]
			mc.Path = append(p, p[0], p[1])
		}
	case "mink-big": // hundreds to thousands of swept quads (pattern edges x path edges from 300 to 8000)
		R = gen.PickOf(r, int64(5000), 1<<20, 1<<26)
		if r.Chance(0.7) {
			mc.Pattern = convexPoly(r, float64(R)*r.FloatRange(0.02, 0.15), 3+r.Intn(10), r.Bool())
		} else {
			mc.Pattern = gen.RandPaths(r, 1, 6, max(R/10, 4))[0]
		}
		n := gen.PickOf(r, 100, 129, 171, 257, 300, 343, 513, 600) + r.Intn(30)
		mc.Path = gen.StarPoly(r, r.Range(-R, R), r.Range(-R, R), float64(R)*0.6, float64(R), n, r.Bool())
	default:
		mc.Pattern = gen.RandPaths(r, 1, 7, max(R/4, 4))[0]
		mc.Path = gen.RandPaths(r, 1, 7, R)[0]
	}
	switch id.Family { // fresh families only: in 15 % of the cases a vertex of the swept outline falls exactly on the origin
	case "mink-convex", "mink-degenerate", "mink-big":
		if r.Chance(0.15) && len(mc.Path) > 0 && len(mc.Pattern) > 0 {
			q, b := mc.Path[r.Intn(len(mc.Path))], mc.Pattern[r.Intn(len(mc.Pattern))]
			dx, dy := -(q.X + b.X), -(q.Y + b.Y)
			if r.Bool() { // ... of the difference instead of the sum
				dx, dy = -(q.X - b.X), -(q.Y - b.Y)
			}
			mc.Path = gen.Translate(Paths{mc.Path}, dx, dy)[0]
		}
	}
	return mc
}

// minkOracle decides whether the translated (and for the sum reflected) pattern
// boundary at p meets the path; stable reports whether the answer provably
// holds on the whole 2-unit neighbourhood of p.
func minkOracle(mc minkCase, p Pt, isSum bool) (meets, stable bool) {
	n := len(mc.Pattern)
	T := make(Path, n)
	for i, b := range mc.Pattern {
		if isSum {
			T[i] = Pt{X: p.X - b.X, Y: p.Y - b.Y}
		} else {
			T[i] = Pt{X: p.X + b.X, Y: p.Y + b.Y}
		}
	}
	// path segments (closed adds the closing one); a 1-point path is a degenerate segment
	var pa, pb []Pt
	m := len(mc.Path)
	if m == 1 {
		pa, pb = append(pa, mc.Path[0]), append(pb, mc.Path[0])
	}
	for i := 0; i+1 < m; i++ {
		pa, pb = append(pa, mc.Path[i]), append(pb, mc.Path[i+1])
	}
	if mc.Closed && m > 2 {
		pa, pb = append(pa, mc.Path[m-1]), append(pb, mc.Path[0])
	}
	minD := math.Inf(1)
	robust := false
	for i := 0; i < n; i++ {
		s1, s2 := T[i], T[(i+1)%n]
		for j := range pa {
			e1, e2 := pa[j], pb[j]
			if oracle.SegsIntersectExact(s1, s2, e1, e2) {
				meets = true
				if oracle.SegsCrossProper(s1, s2, e1, e2) {
					le := math.Hypot(float64(e2.X-e1.X), float64(e2.Y-e1.Y))
					ls := math.Hypot(float64(s2.X-s1.X), float64(s2.Y-s1.Y))
					d1 := math.Abs(oracle.Cross(e1, e2, s1).Float()) / le
					d2 := math.Abs(oracle.Cross(e1, e2, s2).Float()) / le
					d3 := math.Abs(oracle.Cross(s1, s2, e1).Float()) / ls
					d4 := math.Abs(oracle.Cross(s1, s2, e2).Float()) / ls
					if d1 > 2.6 && d2 > 2.6 && d3 > 2.6 && d4 > 2.6 {
						robust = true
					}
				}
			} else {
				// distance between two disjoint segments = min of the four point-segment distances
				d := math.Min(math.Min(oracle.SegDist(s1, e1, e2), oracle.SegDist(s2, e1, e2)), math.Min(oracle.SegDist(e1, s1, s2), oracle.SegDist(e2, s1, s2)))
				minD = math.Min(minD, d)
			}
		}
	}
	if meets {
		return true, robust
	}
	return false, minD > 2.6+oracle.Margin(p)
}

func c08Run(ctx *run.Ctx, id run.CaseID) {
	mc := minkInput(id)
	digest := run.Digest(mc)
	if len(mc.Pattern) < 3 || len(mc.Path) == 0 {
		return
	}
	var sum, diff, swapped Paths
	if !ctx.Guard(digest, "Minkowski", mc, func() {
		sum = clip.MinkowskiSum64(gen.ClonePath(mc.Pattern), gen.ClonePath(mc.Path), mc.Closed)
		diff = clip.MinkowskiDiff64(gen.ClonePath(mc.Pattern), gen.ClonePath(mc.Path), mc.Closed)
		if mc.Closed && len(mc.Path) >= 3 {
			swapped = clip.MinkowskiSum64(gen.ClonePath(mc.Path), gen.ClonePath(mc.Pattern), true)
		}
	}) {
		return
	}
	ctx.Eval(2)
	class := ""
	fail := func(sub, detail string) {
		ctx.Fail(digest, sub, class, fmt.Sprintf("%s; pattern=%v path=%v closed=%v", detail, mc.Pattern, mc.Path, mc.Closed), mc)
		class = ""
	}
	// attribution: the library's result is UnionPaths64(quads, NonZero); rebuild the quads (as-built model of
	// minkowskiInternal), check that their union reproduces the library's result bit for bit, and only then ask
	// whether the witness lies in a join / repair triangle of that union (KF repair-discarded-loop)
	unionClass := func(isSum bool, res Paths, p Pt) string {
		quads := minkQuadsModel(mc.Pattern, mc.Path, isSum, mc.Closed)
		var again Paths
		func() {
			defer func() { recover() }()
			again = clip.UnionPaths64(quads, clip.NonZero)
		}()
		if !pathsEqual(again, res) {
			return ""
		}
		return discardClassPoint(quads, nil, clip.Union, clip.NonZero, p)
	}
	for name, res := range map[string]Paths{"sum": sum, "diff": diff} {
		if d := structuralDefects(res); d != "" {
			fail("structure/"+name, d+fmt.Sprintf(" result=%v", res))
		}
	}
	r := gen.ForCase(id.Family+"#pts", id.Index, id.Stream)
	cands := candidates(r, 50, sum, diff, Paths{mc.Path})
	cands = append(cands, nearPts(r, sum, 30)...)
	cands = append(cands, nearPts(r, diff, 30)...)
	sawIn, sawOut := false, false
	sedges := oracle.NewEdges(true, sum)
	dedges := oracle.NewEdges(true, diff)
	doneSum, doneDiff, doneSw := false, false, false
	for _, p := range cands {
		for _, isSum := range []bool{true, false} {
			res, edges, name := sum, sedges, "sum"
			if !isSum {
				res, edges, name = diff, dedges, "diff"
			}
			if (isSum && doneSum) || (!isSum && doneDiff) {
				continue
			}
			want, stable := minkOracle(mc, p, isSum)
			if !stable {
				continue
			}
			w, on := oracle.Winding(res, p)
			ctx.Count("points_compared", 1)
			if want {
				sawIn = true
			} else {
				sawOut = true
			}
			if (w != 0 || on) != want {
				class = unionClass(isSum, res, p)
				fail("region/"+name, fmt.Sprintf("at %s the translated pattern boundary meets the path: %v, but result winding is %d; result=%v", fmtPt(p), want, w, res))
				if isSum {
					doneSum = true
				} else {
					doneDiff = true
				}
				continue
			}
			if edges.FartherThan(p, 2) && w != 0 && w != 1 {
				fail("winding/"+name, fmt.Sprintf("result winding %d at %s; result=%v", w, fmtPt(p), res))
			}
			if isSum && swapped != nil && !doneSw {
				// sum(B,A): pattern and path exchanged; eligible only if stable in both roles
				mc2 := minkCase{Pattern: mc.Path, Path: mc.Pattern, Closed: true}
				want2, stable2 := minkOracle(mc2, p, true)
				if stable2 && want2 == want {
					w2, on2 := oracle.Winding(swapped, p)
					if (w2 != 0 || on2) != (w != 0 || on) {
						fail("commutative", fmt.Sprintf("sum(A,B) and sum(B,A) differ at %s: windings %d vs %d", fmtPt(p), w, w2))
						doneSw = true
					}
				}
			}
		}
	}
	if sawIn && sawOut {
		ctx.Nontrivial(digest)
		if ctx.WantSample() {
			ctx.Sample(map[string]any{"case": id.String(), "input": mc})
		}
	}
}

// minkQuadsModel mirrors minkowskiInternal: one positively oriented quad per (path edge, pattern edge).
func minkQuadsModel(pattern, path Path, isSum, isClosed bool) Paths {
	patLen, pathLen := len(pattern), len(path)
	if patLen == 0 || pathLen == 0 {
		return Paths{}
	}
	tmp := make(Paths, 0, pathLen)
	for _, q := range path {
		p2 := make(Path, 0, patLen)
		for _, b := range pattern {
			if isSum {
				p2 = append(p2, Pt{X: q.X + b.X, Y: q.Y + b.Y})
			} else {
				p2 = append(p2, Pt{X: q.X - b.X, Y: q.Y - b.Y})
			}
		}
		tmp = append(tmp, p2)
	}
	delta, g := 1, 0
	if isClosed {
		delta, g = 0, pathLen-1
	}
	var out Paths
	h := patLen - 1
	for i := delta; i < pathLen; i++ {
		for j := 0; j < patLen; j++ {
			quad := Path{tmp[g][h], tmp[i][h], tmp[i][j], tmp[g][j]}
			if oracle.Area2(quad).Sign() < 0 {
				quad = gen.Reverse(quad)
			}
			out = append(out, quad)
			h = j
		}
		g = i
	}
	return out
}
