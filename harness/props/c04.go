package props

import (
	"fmt"
	"math"
	"sort"
	"strings"

	clip "github.com/bolom009/go-clipper2"

	"verifharness/gen"
	"verifharness/oracle"
	"verifharness/run"
)

// C04 — PolyTree results are the same polygons, correctly nested.

var c04Specs = []famSpec{
	{Family: "rand-dense", Pool: 30000, PoolQ: 6000},
	{Family: "lattice", Pool: 30000, PoolQ: 6000},
	{Family: "rectilinear", Pool: 40000, PoolQ: 4000},
	{Family: "rect-soup", Pool: 200000, PoolQ: 20000},
	{Family: "rect-cavity", Pool: 100000, PoolQ: 10000},
	{Family: "touching", Pool: 100000, PoolQ: 10000},
	{Family: "stacked", Pool: 60000, PoolQ: 5000},
	{Family: "nested-small", Pool: 40000, PoolQ: 2000},
	{Family: "nested", Pool: 150000, PoolQ: 3000},
	{Family: "nested-large", FreshQ: 3000, FreshT: 150000},
	{Family: "rand-mid", Pool: 30000, PoolQ: 3000},
	{Family: "rand-wide", FreshQ: 3000, FreshT: 150000},
}

func init() {
	register(&run.Prop{
		ID: "C04",
		Rule: "cases as C01 (nested star polygons to depth 6, lattice and rectilinear sets with touching/shared edges, dense random sets); 2 (clip type, fill rule) pairs per case (6 in the stacked, touching and rect-cavity families) through BooleanOpPolyTree64 and Clipper64.ExecutePolyTree64, plus BooleanOpPolyTreeD on the same integers. " +
			"Checked: the multiset of tree polygons equals the flat Paths result (cyclic sequences); IsHole() == (signed area < 0); for every node, every other tree polygon that contains it (decided at the node's vertices that are > 2 units from the other polygon's edges) — the innermost such polygon must be the node's parent, none means root; " +
			"no sibling contains it; D tree has the same shape, Scale()=10^p. Non-trivial = tree with depth >= 2 or >= 3 polygons; distinct by input digest.",
		Assumptions: []string{"containment between two solution polygons is decided only at vertices farther than 2 units from the other polygon's edges; undecidable pairs are skipped"},
		Floor:       400,
		Cases:       func(tier string, seed uint64) []run.CaseID { return buildCases(c04Specs, tier, seed) },
		RunCase:     c04Run,
	})
}

type treeNode struct {
	poly   Path
	parent int // index into nodes, -1 = root
	level  int
	isHole bool
	area2  oracle.I128
}

func flattenTree(root *clip.PolyPathBase) []treeNode {
	var nodes []treeNode
	var walk func(n *clip.PolyPathBase, parent int)
	walk = func(n *clip.PolyPathBase, parent int) {
		for _, ch := range n.GetChildren() {
			nodes = append(nodes, treeNode{poly: ch.Polygon(), parent: parent, level: ch.Level(), isHole: ch.IsHole(), area2: oracle.Area2(ch.Polygon())})
			walk(ch, len(nodes)-1)
		}
	}
	walk(root, -1)
	return nodes
}

func canonCyclic(p Path) string {
	if len(p) == 0 {
		return ""
	}
	best := 0
	for i := 1; i < len(p); i++ {
		if p[i].X < p[best].X || (p[i].X == p[best].X && p[i].Y < p[best].Y) {
			best = i
		}
	}
	// several vertices can be equal to the minimum only if duplicated non-consecutively; choose lexicographically smallest rotation among them
	cands := []int{}
	for i := range p {
		if p[i] == p[best] {
			cands = append(cands, i)
		}
	}
	var bs string
	for _, c := range cands {
		var sb strings.Builder
		for k := 0; k < len(p); k++ {
			v := p[(c+k)%len(p)]
			fmt.Fprintf(&sb, "%d,%d;", v.X, v.Y)
		}
		if bs == "" || sb.String() < bs {
			bs = sb.String()
		}
	}
	return bs
}

func multiset(ps []Path) []string {
	out := make([]string, len(ps))
	for i, p := range ps {
		out[i] = canonCyclic(p)
	}
	sort.Strings(out)
	return out
}

// containsPoly: does polygon q contain polygon n? decided at n's vertices that are > 2 from q's edges.
// returns +1 yes, 0 no, -1 undecidable, 2 mixed (crossing)
func containsPoly(q, n Path) int {
	qe := oracle.NewEdges(true, Paths{q})
	in, out := 0, 0
	for _, v := range n {
		if !qe.FartherThan(v, 2) {
			continue
		}
		if w, _ := oracle.WindingPath(q, v); w != 0 {
			in++
		} else {
			out++
		}
	}
	switch {
	case in == 0 && out == 0:
		return -1
	case in > 0 && out > 0:
		return 2
	case in > 0:
		return 1
	}
	return 0
}

func absI(x oracle.I128) oracle.I128 { return x.Abs() }

func c04Run(ctx *run.Ctx, id run.CaseID) {
	subj, clp := boolInput(id)
	if clp == nil {
		clp = Paths{}
	}
	in := boolCaseJSON{subj, clp}
	digest := run.Digest(in)
	if gen.MaxAbs(subj, clp) > gen.MaxC {
		return
	}
	r := gen.ForCase(id.Family+"#c04", id.Index, id.Stream)
	nontrivial := false
	pairs := 2
	if id.Family == "stacked" || id.Family == "touching" || id.Family == "rect-cavity" { // tiny inputs whose nesting depends strongly on the fill rule
		pairs = 6
	}
	for k := 0; k < pairs; k++ {
		ct := clipTypes[r.Intn(4)]
		fr := fillRules[r.Intn(4)]
		tag := ctName(ct) + "/" + frName(fr)
		var tree *clip.PolyTree64
		var flat Paths
		var okT bool
		rec := clip.NewVerifRecorder(false)
		if !ctx.Guard(digest, "tree/"+tag, in, func() {
			c := clip.NewClipper64()
			c.VerifRecord(rec)
			addClosed(c, subj, clp)
			tree = clip.NewPolyTree64()
			od := clip.PathsD{}
			okT = c.ExecutePolyTree64(ct, fr, tree, &od)
			flat = clip.BooleanOpPaths64(ct, subj, clp, fr)
		}) {
			continue
		}
		ctx.Eval(2)
		addCounts(ctx, rec)
		if !okT {
			ctx.Fail(digest, "execute-false/"+tag, "", "ExecutePolyTree64 returned false", in)
			continue
		}
		nodes := flattenTree(tree.PolyPathBase)
		class := ""
		fail := func(sub, detail string) {
			ctx.Fail(digest, sub+"/"+tag, class, fmt.Sprintf("%s; flat=%v", detail, flat), in)
			class = ""
		}
		inEdges := oracle.NewEdges(true, subj, clp)
		// a polygon that lies entirely inside the 2-unit rounding band of the input edges and is thinner than the band
		// (area <= 2.5 x perimeter, every vertex within 2.5 of an input edge) is a rounding artefact C01 permits to exist
		isBandSliver := func(p Path) bool {
			per := 0.0
			for i := range p {
				a, b := p[i], p[(i+1)%len(p)]
				per += math.Hypot(float64(b.X-a.X), float64(b.Y-a.Y))
				if inEdges.MinDist(a) > 2.5 {
					return false
				}
			}
			return math.Abs(oracle.Area2(p).Float())/2 <= 2.5*per
		}
		// (1) same polygons
		var tp []Path
		maxLevel := 0
		for _, n := range nodes {
			tp = append(tp, n.poly)
			maxLevel = max(maxLevel, n.level)
		}
		a, b := multiset(tp), multiset(flat)
		same := len(a) == len(b)
		for i := 0; same && i < len(a); i++ {
			same = a[i] == b[i]
		}
		if !same {
			fail("polygons", fmt.Sprintf("tree polygons (%d) differ from the flat result (%d): tree=%v", len(a), len(b), tp))
			continue
		}
		if maxLevel >= 2 || len(nodes) >= 3 {
			nontrivial = true
		}
		ctx.Count("tree_nodes", int64(len(nodes)))
		// the convenience function builds the same tree
		var tree2 *clip.PolyTree64
		if ctx.Guard(digest, "BooleanOpPolyTree64/"+tag, in, func() { tree2 = clip.BooleanOpPolyTree64(ct, subj, clp, fr) }) {
			ctx.Eval(1)
			n2 := flattenTree(tree2.PolyPathBase)
			okSame := len(n2) == len(nodes)
			for i := 0; okSame && i < len(nodes); i++ {
				okSame = n2[i].parent == nodes[i].parent && pathEq(n2[i].poly, nodes[i].poly)
			}
			if !okSame {
				fail("entry-points", "BooleanOpPolyTree64 builds a different tree than ExecutePolyTree64")
			}
		}
		// (3) IsHole vs orientation, level alternation
		bad := false
		for i, n := range nodes {
			if n.area2.Sign() != 0 && n.isHole != (n.area2.Sign() < 0) {
				if isBandSliver(n.poly) {
					class = "in-band-sliver-orientation"
				}
				fail("hole-orientation", fmt.Sprintf("node %d level %d IsHole=%v but signed area sign is %d: %v", i, n.level, n.isHole, n.area2.Sign(), n.poly))
				bad = true
				break
			}
			if n.parent >= 0 && nodes[n.parent].level != n.level-1 {
				fail("levels", fmt.Sprintf("node %d level %d has parent of level %d", i, n.level, nodes[n.parent].level))
				bad = true
				break
			}
		}
		if bad || len(nodes) > 60 {
			continue
		}
		// (2)+(4) nesting
		for i, n := range nodes {
			best := -1
			undec := false
			for j, q := range nodes {
				if i == j {
					continue
				}
				c := containsPoly(q.poly, n.poly)
				ctx.Count("containment_tests", 1)
				if c == -1 {
					if j == n.parent {
						undec = true
					}
					continue
				}
				if c == 2 {
					// polygons of one solution must not cross: report only if clearly mixed (handled by C02's winding check); skip here
					undec = true
					continue
				}
				if c == 1 {
					// q contains n: must be an ancestor
					anc := false
					for a := n.parent; a >= 0; a = nodes[a].parent {
						if a == j {
							anc = true
						}
					}
					if !anc {
						// could itself be contained in... not an ancestor at all -> wrong nesting
						fail("nesting", fmt.Sprintf("node %d %v lies inside node %d %v which is not one of its ancestors", i, n.poly, j, q.poly))
						bad = true
						break
					}
					if best < 0 || absI(q.area2).Cmp(absI(nodes[best].area2)) < 0 {
						best = j
					}
				} else if j == n.parent {
					fail("nesting", fmt.Sprintf("node %d %v is not inside its parent node %d %v", i, n.poly, j, q.poly))
					bad = true
					break
				}
			}
			if bad {
				break
			}
			if !undec && best != n.parent {
				fail("parent", fmt.Sprintf("node %d %v: innermost containing polygon is node %d but its parent is node %d", i, n.poly, best, n.parent))
				break
			}
		}
		// (5) D tree on the same integers (precision 0 is remapped to 2 by NewClipperD; use precision 1 with coordinates/10)
		if k == 0 && gen.MaxAbs(subj, clp) < gen.MaxC/16 {
			var dt *clip.PolyTreeD
			sD, cD := toD(subj, 10), toD(clp, 10)
			if ctx.Guard(digest, "BooleanOpPolyTreeD/"+tag, in, func() { dt = clip.BooleanOpPolyTreeD(ct, sD, cD, fr, 1) }) {
				ctx.Eval(1)
				nd := flattenTree(dt.PolyPathBase)
				okSame := len(nd) == len(nodes)
				for i := 0; okSame && i < len(nodes); i++ {
					okSame = nd[i].parent == nodes[i].parent && pathEq(nd[i].poly, nodes[i].poly)
				}
				if !okSame {
					fail("D-tree", fmt.Sprintf("BooleanOpPolyTreeD (precision 1 on coordinates/10) builds a different tree: %d vs %d nodes", len(nd), len(nodes)))
				} else if math.Abs(dt.Scale()-10) > 1e-9 {
					fail("D-tree-scale", fmt.Sprintf("PolyTreeD.Scale()=%v, expected 10", dt.Scale()))
				}
			}
		}
	}
	if nontrivial {
		ctx.Nontrivial(digest)
		if ctx.WantSample() {
			ctx.Sample(map[string]any{"case": id.String(), "subject": subj, "clip": clp})
		}
	}
}
