package props

import (
	"errors"
	"fmt"
	"math"
	"math/big"

	clip "github.com/bolom009/go-clipper2"

	"verifharness/gen"
	"verifharness/run"
)

// C07 — floating-point API equals the integer API on quantised input.

var c07Specs = []famSpec{
	{Family: "float-bool", FreshQ: 6000, FreshT: 300000},
	{Family: "float-offset", FreshQ: 2500, FreshT: 120000},
	{Family: "float-rect", FreshQ: 3000, FreshT: 150000},
	{Family: "float-misc", FreshQ: 3000, FreshT: 150000},
	{Family: "float-precision", FreshQ: 1500, FreshT: 30000},
}

func init() {
	register(&run.Prop{
		ID: "C07",
		Rule: "case = float64 inputs (random decimals with 0-10 fractional digits, ties k+0.5*10^-p, negatives, integers) + precision p in [-8,8] (float-precision: p in [-12,12]) + one family of D entry points: boolean ops and wrappers, PolyTreeD, open subject lines through ClipperD.ExecuteOC / ExecuteWithScaleFunc / ExecutePolyTreeD, ClipperD methods incl. the ScaleFunc variants, InflatePathsD, MinkowskiSumD/DiffD, RectClip(Lines)PathsD/PathD, TrimCollinearD. " +
			"Checked: the library's quantisation q of every input coordinate satisfies |q - x*10^p| <= 0.5 (+1 ulp) against big.Float arithmetic; the D result multiplied back by 10^p and rounded equals, integer for integer, the 64-bit function applied to q (scalars delta/arc tolerance multiplied by 10^p, rectangles quantised like coordinates); " +
			"p outside [-8,8] panics with exactly ErrPrecisionRange, p inside does not panic. Non-trivial = non-empty result with >= 1 coordinate that is not an integer before scaling back; distinct by input digest.",
		Assumptions: []string{"the 64-bit functions are the reference (differential monitor); their own correctness is C01/C05/C06/C08/C11/C15's business", "coordinates are kept below 2^29 after scaling so that float64 products x*10^p are exact to < 1e-6"},
		Floor:       500,
		Cases:       func(tier string, seed uint64) []run.CaseID { return buildCases(c07Specs, tier, seed) },
		RunCase:     c07Run,
	})
}

func pow10Big(p int) *big.Float {
	ten := new(big.Float).SetPrec(256).SetInt64(10)
	r := new(big.Float).SetPrec(256).SetInt64(1)
	for i := 0; i < abs(p); i++ {
		r.Mul(r, ten)
	}
	if p < 0 {
		r.Quo(new(big.Float).SetPrec(256).SetInt64(1), r)
	}
	return r
}

func abs(x int) int {
	if x < 0 {
		return -x
	}
	return x
}

// quantOK checks |q - x*10^p| <= 0.5 + tiny.
func quantOK(x float64, q int64, p int) (bool, string) {
	ex := new(big.Float).SetPrec(256).SetFloat64(x)
	ex.Mul(ex, pow10Big(p))
	d := new(big.Float).SetPrec(256).Sub(new(big.Float).SetPrec(256).SetInt64(q), ex)
	d.Abs(d)
	lim := new(big.Float).SetPrec(256).SetFloat64(0.5 + 1e-6)
	if d.Cmp(lim) > 0 {
		return false, fmt.Sprintf("x=%v p=%d exact x*10^p=%s quantised=%d", x, p, ex.Text('f', 6), q)
	}
	return true, ""
}

// floatVal makes a hostile float value whose scaled magnitude stays < 2^27.
func floatVal(r *gen.Rng, p int) float64 {
	scale := math.Pow(10, float64(p))
	maxInt := float64(int64(1) << 26)
	lim := maxInt / scale // |x| limit
	switch r.Intn(6) {
	case 0: // integer-valued in the scaled domain
		k := float64(r.Range(-1000, 1000))
		return k / scale
	case 1: // exact tie k+0.5 in the scaled domain
		k := float64(r.Range(-1000, 1000))
		return (k + 0.5) / scale
	case 2: // few decimal digits
		d := r.Intn(5)
		return math.Round(r.FloatRange(-1, 1)*math.Min(lim, 1e4)*math.Pow(10, float64(d))) / math.Pow(10, float64(d))
	case 3: // small magnitude
		return r.FloatRange(-1, 1) * math.Min(lim, 50)
	default:
		return r.FloatRange(-1, 1) * math.Min(lim, 1e6)
	}
}

func floatPaths(r *gen.Rng, p, k, maxV int) clip.PathsD {
	// vertices share a modest window so that polygons overlap
	out := make(clip.PathsD, k)
	cx, cy := floatVal(r, p), floatVal(r, p)
	scale := math.Pow(10, float64(p))
	span := math.Min(float64(int64(1)<<24)/scale, math.Max(20/scale, math.Abs(cx)+math.Abs(cy)))
	for i := range out {
		n := 3 + r.Intn(maxV-2)
		q := make(clip.PathD, n)
		for j := range q {
			switch r.Intn(3) {
			case 0:
				q[j] = clip.PointD{X: floatVal(r, p), Y: floatVal(r, p)}
			default:
				q[j] = clip.PointD{X: cx + r.FloatRange(-1, 1)*span, Y: cy + r.FloatRange(-1, 1)*span}
				if r.Chance(0.3) {
					q[j].X = math.Round(q[j].X*scale*2) / 2 / scale // ties
				}
			}
		}
		out[i] = q
	}
	return out
}

type c07ctx struct {
	ctx    *run.Ctx
	digest string
	in     any
	p      int
	scale  float64
	nonInt bool
	nonEmp bool
}

func (c *c07ctx) fail(sub, detail string) {
	c.ctx.Fail(c.digest, sub, "", detail, c.in)
}

// quant quantises through the library and checks the rounding of every coordinate.
func (c *c07ctx) quant(what string, ps clip.PathsD) Paths {
	var q Paths
	if !c.ctx.Guard(c.digest, "ScalePathsDToPaths64", c.in, func() { q = clip.ScalePathsDToPaths64(ps, c.scale) }) {
		return nil
	}
	c.ctx.Eval(1)
	for i := range ps {
		for j := range ps[i] {
			c.ctx.Count("quantisations_checked", 2)
			if ok, d := quantOK(ps[i][j].X, q[i][j].X, c.p); !ok {
				c.fail("quantisation/"+what, d)
				return q
			}
			if ok, d := quantOK(ps[i][j].Y, q[i][j].Y, c.p); !ok {
				c.fail("quantisation/"+what, d)
				return q
			}
		}
	}
	return q
}

// same compares a D result with a 64-bit result in the integer domain.
func (c *c07ctx) same(sub string, d clip.PathsD, i64 Paths) {
	ok := len(d) == len(i64)
	where := ""
	for i := 0; ok && i < len(d); i++ {
		if len(d[i]) != len(i64[i]) {
			ok = false
			break
		}
		for j := range d[i] {
			x, y := math.Round(d[i][j].X*c.scale), math.Round(d[i][j].Y*c.scale)
			if x != float64(i64[i][j].X) || y != float64(i64[i][j].Y) {
				ok = false
				where = fmt.Sprintf(" (path %d vertex %d: %v*10^p -> (%v,%v), integer result %v)", i, j, d[i][j], x, y, i64[i][j])
				break
			}
			if d[i][j].X != math.Trunc(d[i][j].X) {
				c.nonInt = true
			}
		}
	}
	if len(d) > 0 {
		c.nonEmp = true
	}
	c.ctx.Count("results_compared", 1)
	if !ok {
		c.fail(sub, fmt.Sprintf("D result differs from the 64-bit result on the quantised input%s: D=%v int=%v precision=%d", where, d, i64, c.p))
	}
}

func c07Run(ctx *run.Ctx, id run.CaseID) {
	r := gen.ForCase(id.Family, id.Index, id.Stream)
	p := int(r.Range(-8, 8))
	if r.Chance(0.25) {
		p = gen.PickOf(r, 2, 0, -8, 8, 1, -1)
	}
	c := &c07ctx{ctx: ctx, p: p, scale: math.Pow(10, float64(p))}
	switch id.Family {
	case "float-precision":
		p = int(r.Range(-12, 12))
		c.p, c.scale = p, math.Pow(10, float64(p))
		pq := p
		if p < -8 || p > 8 {
			pq = 2
		}
		sD := floatPaths(r, pq, 1+r.Intn(2), 6)
		rd := clip.NewRectD(-1, -1, 1, 1)
		// a precision outside the range is rejected whatever the other arguments are: also for trivial ones
		// (no paths, an empty path, an empty or inverted rectangle), where an entry point may return early
		switch r.Intn(8) {
		case 0:
			sD = nil
		case 1:
			sD = clip.PathsD{}
		case 2:
			sD = clip.PathsD{{}}
		case 3:
			rd = clip.NewRectD(1, 1, 1, 1)
		case 4:
			rd = clip.NewRectD(2, 2, -2, -2)
		}
		first := clip.PathD{}
		if len(sD) > 0 {
			first = sD[0]
		}
		c.in = map[string]any{"paths": sD, "precision": p, "rect": fmt.Sprint(rd)}
		c.digest = run.Digest(c.in)
		calls := map[string]func(){
			"BooleanOpPathsD":          func() { clip.BooleanOpPathsD(clip.Union, sD, nil, clip.NonZero, p) },
			"UnionPathsD":              func() { clip.UnionPathsD(sD, clip.NonZero, p) },
			"UnionWithClipPathsD":      func() { clip.UnionWithClipPathsD(sD, sD, clip.NonZero, p) },
			"IntersectWithClipPathsD":  func() { clip.IntersectWithClipPathsD(sD, sD, clip.NonZero, p) },
			"DifferenceWithClipPathsD": func() { clip.DifferenceWithClipPathsD(sD, sD, clip.NonZero, p) },
			"XorWithClipPathsD":        func() { clip.XorWithClipPathsD(sD, sD, clip.NonZero, p) },
			"BooleanOpPolyTreeD":       func() { clip.BooleanOpPolyTreeD(clip.Union, sD, nil, clip.NonZero, p) },
			"InflatePathsD":            func() { clip.InflatePathsD(sD, 1, clip.Miter, clip.Polygon, clip.WithPrecision(p)) },
			"MinkowskiSumD":            func() { clip.MinkowskiSumD(first, first, true, p) },
			"MinkowskiDiffD":           func() { clip.MinkowskiDiffD(first, first, true, p) },
			"RectClipPathsD":           func() { clip.RectClipPathsD(rd, sD, p) },
			"RectClipLinesPathsD":      func() { clip.RectClipLinesPathsD(rd, sD, p) },
			"TrimCollinearD":           func() { clip.TrimCollinearD(first, p, false) },
		}
		if p != 0 {
			calls["NewClipperD"] = func() { clip.NewClipperD(p) }
		}
		for name, f := range calls {
			var rec any
			func() {
				defer func() { rec = recover() }()
				f()
			}()
			ctx.Eval(1)
			out := p < -8 || p > 8
			switch {
			case out && rec == nil:
				c.fail("precision-accepted/"+name, fmt.Sprintf("%s accepted precision %d without the documented ErrPrecisionRange panic", name, p))
			case out:
				if e, ok := rec.(error); !ok || !errors.Is(e, clip.ErrPrecisionRange) {
					c.fail("precision-wrong-panic/"+name, fmt.Sprintf("%s(precision %d) panicked with %v", name, p, rec))
				}
			case rec != nil:
				c.fail("panic/"+name, fmt.Sprintf("%s(precision %d) panicked: %v", name, p, rec))
			}
		}
		ctx.NontrivialHash(run.DigestInts(int64(id.Index), int64(id.Stream)))
		return
	case "float-bool":
		sD, cD := floatPaths(r, p, 1+r.Intn(2), 7), floatPaths(r, p, r.Intn(3), 7)
		if len(cD) == 0 {
			cD = nil
		}
		ct := clipTypes[r.Intn(4)]
		fr := fillRules[r.Intn(4)]
		c.in = map[string]any{"subject": sD, "clip": cD, "precision": p, "clipType": int(ct), "fillRule": int(fr)}
		c.digest = run.Digest(c.in)
		sq := c.quant("subject", sD)
		var cq Paths
		if cD != nil {
			cq = c.quant("clip", cD)
		}
		if sq == nil {
			return
		}
		var want Paths
		if !ctx.Guard(c.digest, "BooleanOpPaths64", c.in, func() { want = clip.BooleanOpPaths64(ct, sq, cq, fr) }) {
			return
		}
		tag := ctName(ct) + "/" + frName(fr)
		var got clip.PathsD
		if p == 0 {
			// precision 0 is remapped to 2 by NewClipperD: observed separately
			var got0 clip.PathsD
			if ctx.Guard(c.digest, "BooleanOpPathsD/p0", c.in, func() { got0 = clip.BooleanOpPathsD(ct, sD, cD, fr, 0) }) {
				ctx.Eval(1)
				// compare in the p=0 integer domain
				ok := len(got0) == len(want)
				for i := 0; ok && i < len(want); i++ {
					ok = len(got0[i]) == len(want[i])
					for j := 0; ok && j < len(want[i]); j++ {
						ok = got0[i][j].X == float64(want[i][j].X) && got0[i][j].Y == float64(want[i][j].Y)
					}
				}
				if !ok {
					class := ""
					// does it equal the precision-2 computation instead?
					s2, c2 := clip.ScalePathsDToPaths64(sD, 100), Paths(nil)
					if cD != nil {
						c2 = clip.ScalePathsDToPaths64(cD, 100)
					}
					w2 := clip.BooleanOpPaths64(ct, s2, c2, fr)
					eq := len(got0) == len(w2)
					for i := 0; eq && i < len(w2); i++ {
						eq = len(got0[i]) == len(w2[i])
						for j := 0; eq && j < len(w2[i]); j++ {
							eq = math.Round(got0[i][j].X*100) == float64(w2[i][j].X) && math.Round(got0[i][j].Y*100) == float64(w2[i][j].Y)
						}
					}
					if eq {
						class = "precision-zero-means-two"
					}
					ctx.Fail(c.digest, "BooleanOpPathsD/p0/"+tag, class, fmt.Sprintf("precision 0: D result %v differs from the 64-bit result %v on input rounded to integers", got0, want), c.in)
				}
			}
			ctx.Nontrivial(c.digest)
			return
		}
		if ctx.Guard(c.digest, "BooleanOpPathsD", c.in, func() { got = clip.BooleanOpPathsD(ct, sD, cD, fr, p) }) {
			ctx.Eval(1)
			c.same("BooleanOpPathsD/"+tag, got, want)
		}
		// wrappers
		type wr struct {
			name string
			f    func() clip.PathsD
			ct   clip.ClipType
		}
		for _, w := range []wr{
			{"UnionWithClipPathsD", func() clip.PathsD { return clip.UnionWithClipPathsD(sD, cD, fr, p) }, clip.Union},
			{"IntersectWithClipPathsD", func() clip.PathsD { return clip.IntersectWithClipPathsD(sD, cD, fr, p) }, clip.Intersection},
			{"DifferenceWithClipPathsD", func() clip.PathsD { return clip.DifferenceWithClipPathsD(sD, cD, fr, p) }, clip.Difference},
			{"XorWithClipPathsD", func() clip.PathsD { return clip.XorWithClipPathsD(sD, cD, fr, p) }, clip.Xor},
		} {
			if w.ct != ct {
				continue
			}
			var g clip.PathsD
			if ctx.Guard(c.digest, w.name, c.in, func() { g = w.f() }) {
				ctx.Eval(1)
				c.same(w.name+"/"+frName(fr), g, want)
			}
		}
		var gu clip.PathsD
		if ctx.Guard(c.digest, "UnionPathsD", c.in, func() { gu = clip.UnionPathsD(sD, fr, p) }) {
			ctx.Eval(1)
			c.same("UnionPathsD/"+frName(fr), gu, clip.UnionPaths64(sq, fr))
		}
		// open subject lines through every engine entry point that returns an open solution
		{
			lD := floatPaths(r, p, 1+r.Intn(2), 5)
			lq := c.quant("open", lD)
			if lq != nil {
				var wantC, wantO Paths
				var gC1, gO1, gC2, gO2, gO3 clip.PathsD
				if ctx.Guard(c.digest, "ClipperD/open", c.in, func() {
					e64 := clip.NewClipper64()
					e64.AddPaths(lq, clip.Subject, true)
					e64.AddPaths(sq, clip.Subject, false)
					if cq != nil {
						e64.AddPaths(cq, clip.Clip, false)
					}
					wantC, wantO = Paths{}, Paths{}
					e64.ExecuteOC(ct, fr, &wantC, &wantO)
					mk := func() interface {
						ExecuteOC(clip.ClipType, clip.FillRule, *clip.PathsD, *clip.PathsD) bool
						ExecuteWithScaleFunc(clip.ClipType, clip.FillRule, *clip.PathsD, *clip.PathsD, func(Path, float64) clip.PathD) bool
						ExecutePolyTreeD(clip.ClipType, clip.FillRule, *clip.PolyTreeD, *clip.PathsD) bool
					} {
						e := clip.NewClipperD(p)
						e.AddPaths(lD, clip.Subject, true)
						e.AddPaths(sD, clip.Subject, false)
						if cD != nil {
							e.AddPaths(cD, clip.Clip, false)
						}
						return e
					}
					gC1, gO1, gC2, gO2, gO3 = clip.PathsD{}, clip.PathsD{}, clip.PathsD{}, clip.PathsD{}, clip.PathsD{}
					mk().ExecuteOC(ct, fr, &gC1, &gO1)
					mk().ExecuteWithScaleFunc(ct, fr, &gC2, &gO2, clip.ScalePath64ToPathD)
					mk().ExecutePolyTreeD(ct, fr, clip.NewPolyTreeD(), &gO3)
				}) {
					ctx.Eval(4)
					c.same("ClipperD.ExecuteOC/closed/"+tag, gC1, wantC)
					c.same("ClipperD.ExecuteOC/open/"+tag, gO1, wantO)
					c.same("ClipperD.ExecuteWithScaleFunc/closed+open-subject/"+tag, gC2, wantC)
					c.same("ClipperD.ExecuteWithScaleFunc/open/"+tag, gO2, wantO)
					c.same("ClipperD.ExecutePolyTreeD/open/"+tag, gO3, wantO)
				}
			}
		}
		// engine object, incl. ScaleFunc variants and the tree
		var gE, gS clip.PathsD
		var tD *clip.PolyTreeD
		if ctx.Guard(c.digest, "ClipperD", c.in, func() {
			e := clip.NewClipperD(p)
			e.AddPaths(sD, clip.Subject, false)
			if cD != nil {
				e.AddPathsWithScaleFunc(cD, clip.Clip, false, clip.ScalePathsDToPaths64)
			}
			gE, gS = clip.PathsD{}, clip.PathsD{}
			e.Execute(ct, fr, &gE)
			op := clip.PathsD{}
			e.ExecuteWithScaleFunc(ct, fr, &gS, &op, clip.ScalePath64ToPathD)
			tD = clip.NewPolyTreeD()
			e.ExecutePolyTreeD(ct, fr, tD, &op)
		}) {
			ctx.Eval(3)
			c.same("ClipperD.Execute/"+tag, gE, want)
			c.same("ClipperD.ExecuteWithScaleFunc/"+tag, gS, want)
			t64 := clip.BooleanOpPolyTree64(ct, sq, cq, fr)
			a, b := flattenTree(tD.PolyPathBase), flattenTree(t64.PolyPathBase)
			ok := len(a) == len(b)
			for i := 0; ok && i < len(a); i++ {
				ok = a[i].parent == b[i].parent && pathEq(a[i].poly, b[i].poly)
			}
			if !ok {
				c.fail("ExecutePolyTreeD/"+tag, fmt.Sprintf("PolyTreeD differs from PolyTree64 on the quantised input (%d vs %d nodes)", len(a), len(b)))
			} else if math.Abs(tD.Scale()-c.scale) > c.scale*1e-12 {
				c.fail("PolyTreeD.Scale", fmt.Sprintf("Scale()=%v, expected 10^%d", tD.Scale(), p))
			}
			var t2 *clip.PolyTreeD
			if ctx.Guard(c.digest, "BooleanOpPolyTreeD", c.in, func() { t2 = clip.BooleanOpPolyTreeD(ct, sD, cD, fr, p) }) {
				a2 := flattenTree(t2.PolyPathBase)
				ok := len(a2) == len(b)
				for i := 0; ok && i < len(b); i++ {
					ok = a2[i].parent == b[i].parent && pathEq(a2[i].poly, b[i].poly)
				}
				if !ok {
					c.fail("BooleanOpPolyTreeD/"+tag, "tree differs from BooleanOpPolyTree64 on the quantised input")
				}
			}
		}
	case "float-offset":
		sD := floatPaths(r, p, 1+r.Intn(2), 6)
		span := 1000 / c.scale
		delta := gen.PickOf(r, 0, 0.2, 0.3, 0.49, 0.5, 1, 2.5, 7.25, 30) / c.scale * gen.PickOf(r, 1.0, -1)
		if r.Chance(0.3) { // repeated points and a repeated closing point, off the 10^-p grid
			for i := range sD {
				sD[i] = append(sD[i], sD[i][len(sD[i])-1], sD[i][0])
			}
		}
		_ = span
		jt := clip.JoinType(r.Intn(4))
		et := clip.EndType(r.Intn(5))
		ml := gen.PickOf(r, 1.0, 2, 4)
		at := gen.PickOf(r, 0, 0.25, 1) / c.scale
		c.in = map[string]any{"paths": sD, "precision": p, "delta": delta, "joinType": int(jt), "endType": int(et), "miterLimit": ml, "arcTolerance": at}
		c.digest = run.Digest(c.in)
		q := c.quant("paths", sD)
		if q == nil {
			return
		}
		var want Paths
		var got clip.PathsD
		if ctx.Guard(c.digest, "InflatePathsD", c.in, func() {
			want = clip.InflatePaths64(q, delta*c.scale, jt, et, clip.WithMitterLimit(ml), clip.WithArcTolerance(at*c.scale))
			got = clip.InflatePathsD(sD, delta, jt, et, clip.WithMitterLimit(ml), clip.WithArcTolerance(at), clip.WithPrecision(p))
		}) {
			ctx.Eval(2)
			c.same(fmt.Sprintf("InflatePathsD/%s/%s", jtName(jt), etName(et)), got, want)
		}
	case "float-rect":
		sD := floatPaths(r, p, 1+r.Intn(3), 7)
		x0, y0, x1, y1 := floatVal(r, p), floatVal(r, p), floatVal(r, p), floatVal(r, p)
		if r.Chance(0.7) && len(sD[0]) > 1 { // rectangle around the first path's first vertices
			x0, y0 = sD[0][0].X, sD[0][0].Y
			x1, y1 = sD[0][1].X, sD[0][1].Y
		}
		x0, x1 = math.Min(x0, x1), math.Max(x0, x1)+r.FloatRange(0.3, 40)/c.scale
		y0, y1 = math.Min(y0, y1), math.Max(y0, y1)+r.FloatRange(0.3, 40)/c.scale
		c.in = map[string]any{"paths": sD, "precision": p, "rect": []float64{x0, y0, x1, y1}}
		c.digest = run.Digest(c.in)
		q := c.quant("paths", sD)
		if q == nil {
			return
		}
		rq := c.quant("rect", clip.PathsD{{{X: x0, Y: y0}, {X: x1, Y: y1}}})
		if rq == nil {
			return
		}
		rect64 := clip.NewRect64(rq[0][0].X, rq[0][0].Y, rq[0][1].X, rq[0][1].Y)
		rectD := clip.NewRectD(x0, y0, x1, y1)
		// the library's own quantisation of the rectangle must equal the coordinate quantisation
		var lr clip.Rect64
		if ctx.Guard(c.digest, "ScaleRectD", c.in, func() { lr = clip.ScaleRectD(rectD, c.scale) }) {
			ctx.Eval(1)
			l, t, rr, b := clip.VerifRectFields(lr)
			if l != rq[0][0].X || t != rq[0][0].Y || rr != rq[0][1].X || b != rq[0][1].Y {
				c.fail("rect-quantisation", fmt.Sprintf("ScaleRectD(%v,%v,%v,%v; 10^%d) = (%d,%d,%d,%d) but the coordinates quantise to (%d,%d,%d,%d)", x0, y0, x1, y1, p, l, t, rr, b, rq[0][0].X, rq[0][0].Y, rq[0][1].X, rq[0][1].Y))
			}
		}
		if rq[0][0].X >= rq[0][1].X || rq[0][0].Y >= rq[0][1].Y {
			return
		}
		var gP, gL clip.PathsD
		var wP, wL Paths
		if ctx.Guard(c.digest, "RectClipPathsD", c.in, func() {
			wP = clip.RectClipPaths64(rect64, q)
			gP = clip.RectClipPathsD(rectD, sD, p)
			wL = clip.RectClipLinesPaths64(rect64, q)
			gL = clip.RectClipLinesPathsD(rectD, sD, p)
		}) {
			ctx.Eval(4)
			c.same("RectClipPathsD", gP, wP)
			c.same("RectClipLinesPathsD", gL, wL)
		}
		if p == 2 { // single-path variants use the default precision
			var g1, g2 clip.PathsD
			if ctx.Guard(c.digest, "RectClipPathD", c.in, func() {
				g1 = clip.RectClipPathD(rectD, sD[0])
				g2 = clip.RectClipLinesPathD(rectD, sD[0])
			}) {
				ctx.Eval(2)
				c.same("RectClipPathD", g1, clip.RectClipPath64(rect64, q[0]))
				c.same("RectClipLinesPathD", g2, clip.RectClipLinesPath64(rect64, q[0]))
			}
		}
	case "float-misc":
		sD := floatPaths(r, p, 2, 7)
		closed := r.Bool()
		c.in = map[string]any{"pattern": sD[0], "path": sD[1], "precision": p, "closed": closed}
		c.digest = run.Digest(c.in)
		q := c.quant("paths", sD)
		if q == nil {
			return
		}
		var gS, gD clip.PathsD
		var wS, wD Paths
		if ctx.Guard(c.digest, "MinkowskiD", c.in, func() {
			wS = clip.MinkowskiSum64(q[0], q[1], closed)
			wD = clip.MinkowskiDiff64(q[0], q[1], closed)
			gS = clip.MinkowskiSumD(sD[0], sD[1], closed, p)
			gD = clip.MinkowskiDiffD(sD[0], sD[1], closed, p)
		}) {
			ctx.Eval(4)
			c.same("MinkowskiSumD", gS, wS)
			c.same("MinkowskiDiffD", gD, wD)
		}
		// TrimCollinearD on a path with planted collinear runs in the quantised domain
		var tp clip.PathD
		cur := clip.PointD{X: floatVal(r, p), Y: floatVal(r, p)}
		tp = append(tp, cur)
		for len(tp) < 4+r.Intn(5) {
			vx, vy := float64(r.Range(-30, 30))/c.scale, float64(r.Range(-30, 30))/c.scale
			for k := 0; k < 1+r.Intn(3); k++ {
				t := float64(r.Range(1, 5))
				cur = clip.PointD{X: cur.X + t*vx, Y: cur.Y + t*vy}
				tp = append(tp, cur)
			}
		}
		open := r.Bool()
		tq := c.quant("trim", clip.PathsD{tp})
		if tq != nil {
			var gT clip.PathD
			var wT Path
			if ctx.Guard(c.digest, "TrimCollinearD", c.in, func() {
				wT = clip.TrimCollinear64(tq[0], open)
				gT = clip.TrimCollinearD(tp, p, open)
			}) {
				ctx.Eval(2)
				c.same("TrimCollinearD", clip.PathsD{gT}, Paths{wT})
			}
		}
	}
	if c.nonEmp && (c.nonInt || p <= 0) {
		ctx.Nontrivial(c.digest)
		if ctx.WantSample() {
			ctx.Sample(map[string]any{"case": id.String(), "input": c.in})
		}
	}
}
