// Package props holds one monitor per property C01..C19.
package props

import (
	"os"
	"sort"
	"strings"

	"verifharness/run"
)

var registry = map[string]*run.Prop{}

func register(p *run.Prop) { registry[p.ID] = p }

func Get(id string) *run.Prop { return registry[id] }

func IDs() []string {
	var ids []string
	for id := range registry {
		ids = append(ids, id)
	}
	sort.Strings(ids)
	return ids
}

// caseList builds "family/index/stream" ids: pool cases use stream 0 and a
// window of the closed pool chosen by the seed; fresh cases use stream=seed.
type famSpec struct {
	Family string
	Pool   uint64 // size of the closed pool (0 = family is fresh-only)
	PoolQ  uint64 // pool cases per quick run (window offset chosen by seed)
	FreshQ uint64 // fresh cases per quick run
	FreshT uint64 // fresh cases per thorough run
}

func buildCases(specs []famSpec, tier string, seed uint64) []run.CaseID {
	var out []run.CaseID
	only := os.Getenv("VERIF_ONLY_FAMILIES") // developer aid: comma-separated family filter (never set by registered commands)
	for _, s := range specs {
		if only != "" && !strings.Contains(","+only+",", ","+s.Family+",") {
			continue
		}
		if s.Pool > 0 {
			if tier == "thorough" {
				for i := uint64(0); i < s.Pool; i++ {
					out = append(out, run.CaseID{Family: s.Family, Index: i, Stream: 0})
				}
			} else {
				nwin := s.Pool / max(1, s.PoolQ)
				off := uint64(0)
				if nwin > 0 {
					off = (seed % nwin) * s.PoolQ
				}
				for i := uint64(0); i < s.PoolQ && off+i < s.Pool; i++ {
					out = append(out, run.CaseID{Family: s.Family, Index: off + i, Stream: 0})
				}
			}
		}
		n := s.FreshQ
		if tier == "thorough" {
			n = s.FreshT
		}
		for i := uint64(0); i < n; i++ {
			out = append(out, run.CaseID{Family: s.Family, Index: i, Stream: seed + 1})
		}
	}
	return out
}
