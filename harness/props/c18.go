package props

import (
	"fmt"
	"sort"
	"sync"
	"time"

	clip "github.com/bolom009/go-clipper2"

	"verifharness/gen"
	"verifharness/run"
)

// C18 — independent calls are safe to run concurrently.

func init() {
	register(&run.Prop{
		ID: "C18",
		Rule: "case = one repetition of the concurrent workload inside a worker process built with the Go race detector (-race): G goroutines (16 or 64) start behind a barrier and each performs a shuffled list of ~45 different API calls (boolean ops, trees, open paths, offsets incl. ClipperOffset objects, rectangle clipping of polygons and lines, Minkowski, trim/simplify/area/point-in-polygon, D variants; each group also once on inputs of 200-400 vertices per path, e.g. Minkowski sweeps of > 1000 quads, so that size-dependent code paths run concurrently too; and once on rings written with repeated vertices) on read-only inputs SHARED by every third goroutine (3 input sets, goroutine g uses set g mod 3) and DISTINCT engine objects; half of the repetitions switch on the verif yield hook (runtime.Gosched every n-th loop tick) to diversify interleavings. " +
			"Monitors: (1) the race detector (GORACE halt_on_error=0, reports counted from the log files by the parent; any report is a violation); (2) every concurrent call's output digest must equal the digest of the same call made sequentially before the goroutines start; (3) the shared inputs' digests before and after. " +
			"Observed and reported: calls, overlapping call pairs (from monotonic timestamps), distinct overlapping API pairs. Non-trivial = a repetition in which >= 100 distinct API pairs overlapped in time; distinct by repetition id.",
		Assumptions: []string{"the race detector only sees races that actually occur in an explored interleaving; it cannot prove their absence",
			"harness-side state is per goroutine and merged after the join, so the monitor itself adds no shared mutable state"},
		Floor: 2,
		Cases: func(tier string, seed uint64) []run.CaseID {
			n := uint64(8)
			if tier == "thorough" {
				n = 80
			}
			var out []run.CaseID
			for i := uint64(0); i < n; i++ {
				out = append(out, run.CaseID{Family: "concurrent", Index: i, Stream: seed + 1})
			}
			return out
		},
		RunCase: c18Run,
		Post: func(counters map[string]int64) []string {
			if counters["race_detector_enabled"] == 0 {
				return []string{"the worker binary was not built with -race"}
			}
			return nil
		},
	})
}

type apiCall struct {
	name string
	f    func() string
}

func c18Calls(r *gen.Rng) ([]apiCall, func() string) {
	// shared read-only inputs
	subj, clp, _ := gen.RandDense(r)
	for len(clp) == 0 {
		_, clp, _ = gen.RandDense(r)
	}
	latS, latC, _ := gen.Lattice(r)
	nest, _ := gen.Nested(r, 2, 4, 500, true, false)
	open := gen.Polylines(r, 3, 120, subj)
	bigS, bigC := gen.BigN(r, 200, 400)
	bigC0 := Path{{X: 0, Y: 0}, {X: 50, Y: 10}}
	if len(bigC) > 0 {
		bigC0 = bigC[0]
	}
	bigR := float64(gen.MaxAbs(bigS))
	bigRect := clip.NewRect64(int64(-bigR/2), int64(-bigR/3), int64(bigR/2), int64(bigR/2))
	// the same rings written with repeated vertices (every vertex twice, the closing vertex repeated): code that
	// removes duplicates must not do so inside the caller's - here shared - slice
	dup := make(Paths, len(nest))
	for i, p := range nest {
		for _, v := range p {
			dup[i] = append(dup[i], v, v)
		}
		if len(p) > 0 {
			dup[i] = append(dup[i], p[0])
		}
	}
	sD, cD := toD(subj, 10), toD(clp, 10)
	nD := toD(nest, 10)
	pat := convexPoly(r, 30, 6, true)
	rect := clip.NewRect64(-40, -30, 60, 55)
	rectD := clip.NewRectD(-4, -3, 6, 5.5)
	// one-point paths and a per-set explicit arc tolerance / delta (drawn last, so the inputs above are unchanged): the
	// arc-step tables behind round caps and round joins depend on tolerance/delta, so a table shared between calls
	// shows up as a wrong result on another input set, not only as a race report (seeded fault C18f)
	dots := Paths{{{X: r.Range(-300, 300), Y: r.Range(-300, 300)}}, {{X: r.Range(-300, 300), Y: r.Range(-300, 300)}}}
	dotDelta := r.FloatRange(8, 40)
	dotTol := r.FloatRange(0.02, 2)
	inputsDigest := func() string {
		return run.Digest([]any{subj, clp, latS, latC, nest, open, bigS, bigC, sD, cD, nD, pat, dup, dots})
	}
	d := func(v any) string { return run.Digest(v) }
	calls := []apiCall{
		{"BooleanOpPaths64/Union", func() string { return d(clip.BooleanOpPaths64(clip.Union, subj, clp, clip.NonZero)) }},
		{"BooleanOpPaths64/Xor", func() string { return d(clip.BooleanOpPaths64(clip.Xor, latS, latC, clip.EvenOdd)) }},
		{"IntersectWithClipPaths64", func() string { return d(clip.IntersectWithClipPaths64(subj, clp, clip.Positive)) }},
		{"DifferenceWithClipPaths64", func() string { return d(clip.DifferenceWithClipPaths64(nest, subj, clip.NonZero)) }},
		{"UnionPaths64/big", func() string { return d(clip.UnionPaths64(bigS, clip.NonZero)) }},
		{"BooleanOpPaths64/big", func() string { return d(clip.BooleanOpPaths64(clip.Intersection, bigS, bigC, clip.EvenOdd)) }},
		{"BooleanOpPolyTree64", func() string {
			t := clip.BooleanOpPolyTree64(clip.Union, nest, latS, clip.NonZero)
			return d(flattenTree(t.PolyPathBase))
		}},
		{"Clipper64.ExecuteOC", func() string {
			c := clip.NewClipper64()
			c.AddPaths(subj, clip.Subject, false)
			c.AddPaths(open, clip.Subject, true)
			c.AddPaths(clp, clip.Clip, false)
			a, b := Paths{}, Paths{}
			c.ExecuteOC(clip.Intersection, clip.NonZero, &a, &b)
			a2, b2 := Paths{}, Paths{}
			c.ExecuteOC(clip.Difference, clip.EvenOdd, &a2, &b2)
			return d([]any{a, b, a2, b2})
		}},
		{"Clipper64.ExecutePolyTree64", func() string {
			c := clip.NewClipper64()
			c.AddPaths(latS, clip.Subject, false)
			c.AddPaths(latC, clip.Clip, false)
			t := clip.NewPolyTree64()
			o := clip.PathsD{}
			c.ExecutePolyTree64(clip.Xor, clip.NonZero, t, &o)
			return d(flattenTree(t.PolyPathBase))
		}},
		{"BooleanOpPathsD", func() string { return d(clip.BooleanOpPathsD(clip.Union, sD, cD, clip.NonZero, 1)) }},
		{"BooleanOpPolyTreeD", func() string {
			t := clip.BooleanOpPolyTreeD(clip.Difference, nD, sD, clip.NonZero, 1)
			return d(flattenTree(t.PolyPathBase))
		}},
		{"ClipperD.ExecuteOC", func() string {
			c := clip.NewClipperD(1)
			c.AddPaths(sD, clip.Subject, false)
			c.AddPaths(cD, clip.Clip, false)
			a, b := clip.PathsD{}, clip.PathsD{}
			c.ExecuteOC(clip.Xor, clip.Negative, &a, &b)
			return d([]any{a, b})
		}},
		{"InflatePaths64/Round", func() string { return d(clip.InflatePaths64(nest, 7.5, clip.Round, clip.Polygon)) }},
		{"InflatePaths64/Miter-", func() string { return d(clip.InflatePaths64(nest, -9, clip.Miter, clip.Polygon)) }},
		{"InflatePaths64/open", func() string { return d(clip.InflatePaths64(open, 6, clip.Square, clip.RoundET)) }},
		{"InflatePaths64/joined", func() string { return d(clip.InflatePaths64(open, 4, clip.Bevel, clip.Joined)) }},
		{"InflatePathsD", func() string { return d(clip.InflatePathsD(nD, 1.25, clip.Round, clip.Polygon, clip.WithPrecision(1))) }},
		{"ClipperOffset", func() string {
			co := clip.NewClipperOffset(2, 0.25, false, false)
			co.AddPaths(nest, clip.Round, clip.Polygon)
			co.AddPaths(open, clip.Square, clip.Butt)
			a := Paths{}
			co.Execute64(5, &a)
			b := Paths{}
			co.Execute64(-3, &b)
			return d([]any{a, b})
		}},
		{"RectClipPaths64", func() string { return d(clip.RectClipPaths64(rect, subj)) }},
		{"RectClipPaths64/nest", func() string { return d(clip.RectClipPaths64(clip.NewRect64(-300, -200, 250, 280), nest)) }},
		{"RectClipLinesPaths64", func() string { return d(clip.RectClipLinesPaths64(rect, open)) }},
		{"RectClip64.Execute/reuse", func() string {
			rc := clip.NewRectClip64(rect)
			return d([]any{rc.Execute(subj), rc.Execute(latS), rc.Execute(subj)})
		}},
		{"RectClipPathsD", func() string { return d(clip.RectClipPathsD(rectD, sD, 1)) }},
		{"RectClipLinesPathsD", func() string { return d(clip.RectClipLinesPathsD(rectD, toD(open, 10), 1)) }},
		{"MinkowskiSum64", func() string { return d(clip.MinkowskiSum64(pat, subj[0], true)) }},
		{"MinkowskiDiff64", func() string { return d(clip.MinkowskiDiff64(pat, open[0], false)) }},
		{"MinkowskiSumD", func() string { return d(clip.MinkowskiSumD(toD(Paths{pat}, 10)[0], sD[0], true, 1)) }},
		{"TrimCollinear64", func() string {
			return d([]any{clip.TrimCollinear64(latS[0], false), clip.TrimCollinear64(open[0], true)})
		}},
		{"SimplifyPaths64", func() string { return d(clip.SimplifyPaths64(bigS, 40, true)) }},
		{"SimplifyPath64/alias", func() string { return d(clip.SimplifyPath64(subj[0][:min(3, len(subj[0]))], 1, true)) }}, // < 4 points: returns its argument
		{"ScalePath64/alias", func() string { return d([]any{clip.ScalePath64(subj[0], 1), clip.ScalePath64(subj[0], 3)}) }},
		{"AreaPaths64+PIP", func() string {
			return d([]any{clip.AreaPaths64(nest), clip.PointInPolygon(Pt{X: 3, Y: 4}, nest[0]), clip.GetBounds64(subj[0]), clip.IsPositive64(nest[0]), clip.Path2ContainsPath1(nest[len(nest)-1], nest[0])})
		}},
		{"Ellipse64+StripDuplicates", func() string {
			return d([]any{clip.Ellipse64(Pt{X: 10, Y: -5}, 40, 25, 0), clip.StripDuplicates(latS[0], true)})
		}},
		{"MinkowskiSum64/big", func() string { return d(clip.MinkowskiSum64(pat, bigS[0], true)) }},
		{"MinkowskiDiff64/big-open", func() string { return d(clip.MinkowskiDiff64(pat, bigC0, false)) }},
		{"InflatePaths64/big", func() string { return d(clip.InflatePaths64(bigS, bigR/50, clip.Round, clip.Polygon)) }},
		{"InflatePaths64/big-open", func() string { return d(clip.InflatePaths64(bigS, bigR/80, clip.Miter, clip.SquareET)) }},
		{"RectClipPaths64/big", func() string { return d(clip.RectClipPaths64(bigRect, bigS)) }},
		{"RectClipLinesPaths64/big", func() string { return d(clip.RectClipLinesPaths64(bigRect, bigS)) }},
		{"BooleanOpPolyTree64/big", func() string {
			t := clip.BooleanOpPolyTree64(clip.Xor, bigS, bigC, clip.EvenOdd)
			return d(flattenTree(t.PolyPathBase))
		}},
		{"Clipper64/big-reexecute", func() string {
			c := clip.NewClipper64()
			c.AddPaths(bigS, clip.Subject, false)
			c.AddPaths(bigC, clip.Clip, false)
			a, b := Paths{}, Paths{}
			c.Execute(clip.Union, clip.NonZero, &a)
			c.Execute(clip.Difference, clip.EvenOdd, &b)
			t := clip.NewPolyTree64()
			o := clip.PathsD{}
			c.ExecutePolyTree64(clip.Intersection, clip.NonZero, t, &o)
			return d([]any{a, b, flattenTree(t.PolyPathBase)})
		}},
		{"InflatePaths64/dup", func() string { return d(clip.InflatePaths64(dup, 6, clip.Round, clip.Polygon)) }},
		{"InflatePaths64/dot", func() string {
			return d([]any{clip.InflatePaths64(dots, dotDelta, clip.Round, clip.RoundET, clip.WithArcTolerance(dotTol)),
				clip.InflatePaths64(dots, dotDelta/2, clip.Square, clip.SquareET),
				clip.InflatePaths64(nest, dotDelta/3, clip.Round, clip.Polygon, clip.WithArcTolerance(dotTol)),
				clip.InflatePathsD(toD(dots, 10), dotDelta/10, clip.Round, clip.RoundET, clip.WithPrecision(1), clip.WithArcTolerance(dotTol/10))})
		}},
		{"ClipperOffset/dot", func() string {
			co := clip.NewClipperOffset(2, dotTol, false, false)
			co.AddPaths(dots, clip.Round, clip.RoundET)
			co.AddPaths(open, clip.Round, clip.RoundET)
			a := Paths{}
			co.Execute64(dotDelta, &a)
			return d(a)
		}},
		{"ClipperOffset/dup", func() string {
			co := clip.NewClipperOffset(2, 0.25, false, false)
			co.AddPaths(dup, clip.Miter, clip.Polygon)
			co.AddPaths(dup[:1], clip.Square, clip.Joined)
			a := Paths{}
			co.Execute64(-4, &a)
			return d(a)
		}},
		{"dup/misc", func() string {
			return d([]any{clip.BooleanOpPaths64(clip.Union, dup, latS, clip.NonZero), clip.RectClipPaths64(clip.NewRect64(-300, -200, 250, 280), dup),
				clip.SimplifyPaths64(dup, 2, true), clip.TrimCollinear64(dup[0], false), clip.StripDuplicates(dup[0], true), clip.MinkowskiSum64(pat, dup[0], true),
				clip.InflatePathsD(toD(dup, 10), 0.7, clip.Square, clip.Polygon, clip.WithPrecision(1))})
		}},
		{"ScalePathsDToPaths64", func() string {
			return d([]any{clip.ScalePathsDToPaths64(sD, 100), clip.ScalePaths64ToPathsD(subj, 0.01), clip.TrimCollinearD(sD[0], 1, false)})
		}},
	}
	return calls, inputsDigest
}

type callRec struct {
	api        int
	start, end int64
}

func c18Run(ctx *run.Ctx, id run.CaseID) {
	if raceEnabled {
		ctx.Count("race_detector_enabled", 1)
	}
	// K input sets (4 repetitions share them); goroutine g works on set g mod K, so that concurrent calls of one API
	// mostly run on DIFFERENT data and a shared buffer shows up as a wrong result, not only as a race report
	const K = 3
	var sets [K][]apiCall
	var inDigests [K]func() string
	for k := 0; k < K; k++ {
		sets[k], inDigests[k] = c18Calls(gen.ForCase(fmt.Sprintf("%s#set%d", id.Family, k), id.Index/4, id.Stream))
	}
	calls := sets[0]
	inputsDigest := func() string {
		s := ""
		for k := 0; k < K; k++ {
			s += inDigests[k]()
		}
		return s
	}
	rr := gen.ForCase("c18-sched", id.Index, id.Stream)
	G := 16
	if id.Index%2 == 1 {
		G = 64
	}
	yield := int64(0)
	if (id.Index/2)%2 == 1 {
		yield = gen.PickOf(rr, int64(1), 3, 17)
	}
	digest := fmt.Sprintf("rep-%d-%d", id.Index, id.Stream)
	before := inputsDigest()
	// sequential reference
	var want [K][]string
	ok := ctx.Guard(digest, "sequential", nil, func() {
		for k := 0; k < K; k++ {
			want[k] = make([]string, len(calls))
			for i, c := range sets[k] {
				want[k][i] = c.f()
			}
		}
	})
	if !ok {
		return
	}
	clip.VerifSetYieldEvery(yield)
	defer clip.VerifSetYieldEvery(0)
	rounds := 2
	orders := make([][]int, G)
	for g := range orders {
		for k := 0; k < rounds; k++ {
			orders[g] = append(orders[g], rr.Perm(len(calls))...)
		}
	}
	recs := make([][]callRec, G)
	mism := make([][]string, G)
	panics := make([]string, G)
	var wg sync.WaitGroup
	start := make(chan struct{})
	t0 := time.Now()
	for g := 0; g < G; g++ {
		wg.Add(1)
		go func(g int) {
			defer wg.Done()
			defer func() {
				if x := recover(); x != nil {
					panics[g] = fmt.Sprint(x)
				}
			}()
			<-start
			for _, i := range orders[g] {
				s := time.Since(t0).Nanoseconds()
				got := sets[g%K][i].f()
				e := time.Since(t0).Nanoseconds()
				recs[g] = append(recs[g], callRec{i, s, e})
				if got != want[g%K][i] {
					mism[g] = append(mism[g], calls[i].name)
				}
			}
		}(g)
	}
	close(start)
	wg.Wait()
	ctx.Eval(G * rounds * len(calls))
	ctx.Count("goroutines", int64(G))
	for g := 0; g < G; g++ {
		if panics[g] != "" {
			ctx.Fail(digest, "panic-under-concurrency", "", fmt.Sprintf("goroutine %d panicked: %s", g, panics[g]), nil)
		}
		if len(mism[g]) > 0 {
			ctx.Fail(digest, "result-differs/"+mism[g][0], "", fmt.Sprintf("goroutine %d: %d concurrent calls returned a result different from the sequential run: %v", g, len(mism[g]), mism[g]), nil)
		}
	}
	if after := inputsDigest(); after != before {
		ctx.Fail(digest, "shared-input-modified", "", "the shared read-only inputs changed during the concurrent phase", nil)
	}
	// overlap statistics (sweep over all call intervals)
	type ev struct {
		t     int64
		open  bool
		api   int
		owner int
	}
	var evs []ev
	for g := range recs {
		for _, c := range recs[g] {
			evs = append(evs, ev{c.start, true, c.api, g}, ev{c.end, false, c.api, g})
		}
	}
	sort.Slice(evs, func(i, j int) bool { return evs[i].t < evs[j].t })
	active := map[int]int{} // goroutine -> api
	pairs := map[[2]int]bool{}
	var overlaps int64
	for _, e := range evs {
		if e.open {
			for _, a := range active {
				overlaps++
				x, y := a, e.api
				if x > y {
					x, y = y, x
				}
				pairs[[2]int{x, y}] = true
			}
			active[e.owner] = e.api
		} else {
			delete(active, e.owner)
		}
	}
	ctx.Count("overlapping_call_pairs", overlaps)
	ctx.Count("distinct_overlapping_api_pairs_summed_over_reps", int64(len(pairs)))
	ctx.Count("repetitions", 1)
	if yield > 0 {
		ctx.Count("repetitions_with_yield_hook", 1)
	}
	if len(pairs) >= 100 {
		ctx.Nontrivial(digest)
	}
	if ctx.WantSample() {
		ctx.Sample(map[string]any{"repetition": id.String(), "goroutines": G, "apis": len(calls), "yield_every": yield, "overlapping_call_pairs": overlaps, "distinct_api_pairs": len(pairs), "total_api_pairs": len(calls) * (len(calls) + 1) / 2})
	}
}
