package props

import (
	"fmt"
	"math"

	clip "github.com/bolom009/go-clipper2"

	"verifharness/gen"
	"verifharness/oracle"
	"verifharness/run"
)

// C06 — rectangle clipping keeps exactly what is inside the rectangle.

var c06Specs = []famSpec{
	{Family: "rc-dense", Pool: 300000, PoolQ: 20000},
	{Family: "rc-lattice", Pool: 200000, PoolQ: 10000},
	{Family: "rc-wide-snap", Pool: 200000, PoolQ: 10000},
	{Family: "rc-wide", Pool: 200000, PoolQ: 10000},
	{Family: "rc-nested", FreshQ: 4000, FreshT: 200000},
	{Family: "rc-simple", FreshQ: 6000, FreshT: 400000},
	{Family: "rc-degenerate", FreshQ: 3000, FreshT: 100000},
	{Family: "rc-big", FreshQ: 300, FreshT: 10000},
	{Family: "rc-gap", FreshQ: 3000, FreshT: 100000},
}

func init() {
	register(&run.Prop{
		ID: "C06",
		Rule: "case = rectangle + closed path set. Paths from the rand-dense / lattice / rand-wide / nested / degenerate generators, rc-big: closed curves of 200..1500 vertices or 20..60 star polygons, rc-gap: combs with a rectangle whose sides lie on two facing vertical edges of the path; rectangle random inside the bounding box, snapped to path vertex coordinates (touching/containing vertices), containing everything, disjoint, or a thin sliver. " +
			"Checked: every result vertex within the rectangle (<= 1 outside); total winding of the result equals the input's at integer points inside the rectangle > 2 from its boundary and from every input edge, and is 0 at points > 2 outside; " +
			"per path: bounds inside -> returned verbatim, bounds disjoint -> nothing; a reused RectClip64 object gives the same result as a fresh one. Non-trivial = some path crosses the rectangle boundary (neither fast path) and >= 1 eligible interior point; distinct by input digest.",
		Assumptions: []string{"exact winding by 128-bit arithmetic; rectangles are built by the harness so their bounds are known without reading unexported fields"},
		Floor:       500,
		Cases:       func(tier string, seed uint64) []run.CaseID { return buildCases(c06Specs, tier, seed) },
		RunCase:     c06Run,
	})
}

type rectI struct{ L, T, R, B int64 }

func (q rectI) lib() clip.Rect64 { return clip.NewRect64(q.L, q.T, q.R, q.B) }

// pickRect chooses a rectangle relative to the given paths.
func pickRect(r *gen.Rng, paths Paths, snap bool) rectI {
	x0, y0, x1, y1, ok := oracle.Bounds(paths)
	if !ok {
		x0, y0, x1, y1 = -10, -10, 10, 10
	}
	var verts []Pt
	for _, p := range paths {
		verts = append(verts, p...)
	}
	w, h := x1-x0, y1-y0
	pick := func(lo, hi int64) (int64, int64) {
		a, b := r.Range(lo, hi), r.Range(lo, hi)
		if a > b {
			a, b = b, a
		}
		if a == b {
			b++
		}
		return a, b
	}
	var q rectI
	mode := r.Intn(7)
	if snap {
		mode = 2
	} else if mode == 2 || mode == 3 {
		mode = 0
	}
	switch mode {
	case 0, 1: // random inside the bbox (slightly larger)
		q.L, q.R = pick(x0-w/8-2, x1+w/8+2)
		q.T, q.B = pick(y0-h/8-2, y1+h/8+2)
	case 2, 3: // snapped to vertex coordinates
		if len(verts) >= 2 {
			a, b := verts[r.Intn(len(verts))], verts[r.Intn(len(verts))]
			c, d := verts[r.Intn(len(verts))], verts[r.Intn(len(verts))]
			q.L, q.R = min(a.X, b.X), max(a.X, b.X)
			q.T, q.B = min(c.Y, d.Y), max(c.Y, d.Y)
			if r.Chance(0.3) {
				q.L += r.Range(-1, 1)
				q.B += r.Range(-1, 1)
			}
			if q.L >= q.R {
				q.R = q.L + 1 + r.Range(0, w/4+1)
			}
			if q.T >= q.B {
				q.B = q.T + 1 + r.Range(0, h/4+1)
			}
		} else {
			q = rectI{x0, y0, x1 + 1, y1 + 1}
		}
	case 4: // contains everything
		q = rectI{x0 - r.Range(0, 3), y0 - r.Range(0, 3), x1 + r.Range(0, 3) + 1, y1 + r.Range(0, 3) + 1}
	case 5: // disjoint or barely touching
		q = rectI{x1 + r.Range(0, 2), y0, x1 + w/2 + 3, y1 + 1}
	default: // thin sliver through the middle
		m := (y0 + y1) / 2
		q = rectI{x0 - 2, m, x1 + 2, m + 1 + r.Range(0, 3)}
	}
	return q
}

func rcInput(id run.CaseID) (Paths, rectI) {
	r := gen.ForCase(id.Family, id.Index, id.Stream)
	var paths Paths
	switch id.Family {
	case "rc-dense":
		a, b, _ := gen.RandDense(r)
		paths = append(a, b...)
	case "rc-lattice":
		a, b, _ := gen.Lattice(r)
		paths = append(a, b...)
	case "rc-wide", "rc-wide-snap":
		a, b, _ := gen.RandWide(r)
		paths = append(a, b...)
	case "rc-nested":
		R := gen.PickOf(r, 60.0, 500.0, 20000.0, 3.0e6)
		paths, _ = gen.Nested(r, 1+r.Intn(3), 5, R, r.Chance(0.7), r.Chance(0.3))
	case "rc-simple":
		R := gen.PickOf(r, int64(40), 1000, 1<<20, 1<<27)
		for k := 0; k < 1+r.Intn(3); k++ {
			cx, cy := r.Range(-R, R), r.Range(-R, R)
			if r.Chance(0.3) {
				paths = append(paths, gen.Comb(r, cx, cy, 1+r.Intn(5), max(R/20, 2), max(R/3, 8), r.Bool()))
			} else {
				paths = append(paths, gen.StarPoly(r, cx, cy, float64(R)*0.3, float64(R)*0.9, 3+r.Intn(12), r.Bool()))
			}
		}
	case "rc-big": // paths of 200..1500 vertices (noisy closed curves crossing the rectangle many times), or 20..60 paths
		if r.Bool() {
			a, b := gen.BigNR(r, 200, 1500, []int64{20000, 1000000, 1 << 27})
			paths = append(a, b...)
		} else {
			R := gen.PickOf(r, int64(1000), 1<<20, 1<<27)
			for k := 0; k < 20+r.Intn(41); k++ {
				paths = append(paths, gen.StarPoly(r, r.Range(-R, R), r.Range(-R, R), float64(R)*0.05, float64(R)*0.3, 3+r.Intn(12), r.Bool()))
			}
		}
	case "rc-gap":
		// a comb (or two), and a rectangle whose left and right sides lie ON two facing vertical edges of the path: the
		// rectangle spans a gap (or a tooth, or both), its corners are on the path, its interior may be wholly outside
		R := gen.PickOf(r, int64(40), 1000, 1<<20)
		for k := 0; k < 1+r.Intn(2); k++ {
			paths = append(paths, gen.Comb(r, r.Range(-R, R), r.Range(-R, R)+int64(k)*3*R, 2+r.Intn(4), max(R/20, 2), max(R/3, 8), r.Bool()))
		}
		type vedge struct{ x, y0, y1 int64 }
		var ves []vedge
		for _, p := range paths {
			for i := range p {
				a, b := p[i], p[(i+1)%len(p)]
				if a.X == b.X && a.Y != b.Y {
					ves = append(ves, vedge{a.X, min(a.Y, b.Y), max(a.Y, b.Y)})
				}
			}
		}
		for try := 0; try < 20 && len(ves) >= 2; try++ {
			e, f := ves[r.Intn(len(ves))], ves[r.Intn(len(ves))]
			lo, hi := max(e.y0, f.y0), min(e.y1, f.y1)
			if e.x == f.x || hi-lo < 2 {
				continue
			}
			q := rectI{L: min(e.x, f.x), R: max(e.x, f.x), T: lo, B: hi}
			switch r.Intn(3) {
			case 0: // strictly inside the common extent
				q.T = r.Range(lo, hi-1)
				q.B = r.Range(q.T+1, hi)
			case 1: // from one end of the common extent
				q.B = r.Range(lo+1, hi)
			}
			return paths, q
		}
	case "rc-degenerate":
		a, b := gen.Degenerate(r)
		paths = append(a, b...)
		if paths == nil {
			paths = Paths{}
		}
	}
	snap := r.Chance(0.35)
	switch id.Family {
	case "rc-wide":
		snap = false
	case "rc-wide-snap":
		snap = true
	}
	q := pickRect(r, paths, snap)
	switch id.Family { // fresh families only (the pools are a closed set)
	case "rc-nested", "rc-simple", "rc-degenerate", "rc-big", "rc-gap":
		if r.Chance(0.15) { // a rectangle corner, a vertex or an edge/rectangle crossing exactly on the origin
			dx, dy := anchorShift(r, []Paths{paths, {{{X: q.L, Y: q.T}, {X: q.R, Y: q.T}, {X: q.R, Y: q.B}, {X: q.L, Y: q.B}}}}, nil)
			paths = gen.Translate(paths, dx, dy)
			q = rectI{q.L + dx, q.T + dy, q.R + dx, q.B + dy}
		}
	}
	return paths, q
}

func c06Run(ctx *run.Ctx, id run.CaseID) {
	paths, q := rcInput(id)
	in := map[string]any{"rect": q, "paths": paths}
	digest := run.Digest(in)
	if gen.MaxAbs(paths) > gen.MaxC {
		return
	}
	rect := q.lib()
	var out Paths
	if !ctx.Guard(digest, "RectClipPaths64", in, func() { out = clip.RectClipPaths64(rect, gen.Clone(paths)) }) {
		return
	}
	ctx.Eval(1)
	failClass := func(sub, class, detail string) {
		ctx.Fail(digest, sub, class, fmt.Sprintf("%s; rect=%+v paths=%v result=%v", detail, q, paths, out), in)
	}
	fail := func(sub, detail string) { failClass(sub, "", detail) }
	// vertices within the rectangle
	for _, p := range out {
		for _, v := range p {
			if v.X < q.L-1 || v.X > q.R+1 || v.Y < q.T-1 || v.Y > q.B+1 {
				fail("vertex-outside", fmt.Sprintf("result vertex %s is more than 1 unit outside the rectangle", fmtPt(v)))
				goto windings
			}
		}
	}
windings:
	r := gen.ForCase(id.Family+"#pts", id.Index, id.Stream)
	edges := oracle.NewEdges(true, paths)
	rectPath := Paths{{{X: q.L, Y: q.T}, {X: q.R, Y: q.T}, {X: q.R, Y: q.B}, {X: q.L, Y: q.B}}}
	redges := oracle.NewEdges(true, rectPath)
	cands := candidates(r, 50, paths, rectPath)
	cands = append(cands, nearPts(r, out, 30)...)
	// library skips paths with < 3 points: they contribute no winding anyway
	nElig := 0
	for _, p := range cands {
		if !redges.FartherThan(p, 2) {
			continue
		}
		inside := p.X > q.L && p.X < q.R && p.Y > q.T && p.Y < q.B
		wr, _ := oracle.Winding(out, p)
		if !inside {
			ctx.Count("points_compared", 1)
			if wr != 0 {
				fail("outside-nonzero", fmt.Sprintf("result winding %d at %s outside the rectangle", wr, fmtPt(p)))
				break
			}
			continue
		}
		if !edges.FartherThan(p, 2) {
			continue
		}
		nElig++
		wi, _ := oracle.Winding(paths, p)
		ctx.Count("points_compared", 1)
		if wi != wr {
			failClass("winding", rectEnclosedClass(paths, q, wi-wr), fmt.Sprintf("at %s inside the rectangle input winding %d, result winding %d", fmtPt(p), wi, wr))
			break
		}
	}
	// integral of the winding number over the rectangle: exact signed area of the result vs the slab decomposition
	// of (input paths, rectangle); they may differ only by what the 2-unit bands can hold
	if cells, ok := oracle.Decompose(paths, Paths{{{X: q.L, Y: q.T}, {X: q.R, Y: q.T}, {X: q.R, Y: q.B}, {X: q.L, Y: q.B}}}, 400); ok {
		want, maxW := 0.0, 1
		for _, c := range cells {
			if c.WC != 0 {
				want += float64(c.WS) * c.Area
				maxW = max(maxW, c.WS, -c.WS)
			}
		}
		got := oracle.Area2Paths(out).Float() / 2
		rectArea := float64(q.R-q.L) * float64(q.B-q.T)
		tol := float64(maxW)*(4*(edgeLen(paths)+2*float64(q.R-q.L)+2*float64(q.B-q.T))+13*float64(gen.NumVerts(paths)+4)) + 1e-7*math.Abs(want) + 4
		ctx.Count("winding_integrals_compared", 1)
		if d := got - want; math.Abs(d) > tol {
			class := ""
			if m := math.Round(-d / rectArea); m != 0 && math.Abs(-d-m*rectArea) <= tol {
				class = rectEnclosedClass(paths, q, int(m))
			}
			failClass("winding-integral", class, fmt.Sprintf("signed area of the result %.1f, integral of the input winding number over the rectangle %.1f (difference %.1f, tolerance %.1f)", got, want, d, tol))
		}
	}
	// fast paths per path + crossing detection
	crossing := false
	for i, p := range paths {
		if len(p) == 0 {
			continue
		}
		x0, y0, x1, y1, _ := oracle.Bounds(Paths{p})
		insideB := x0 >= q.L && x1 <= q.R && y0 >= q.T && y1 <= q.B
		disjoint := x1 < q.L || x0 > q.R || y1 < q.T || y0 > q.B
		if !insideB && !disjoint && len(p) >= 3 {
			crossing = true
		}
		if !insideB && !disjoint {
			continue
		}
		var single Paths
		if !ctx.Guard(digest, "RectClipPath64", in, func() { single = clip.RectClipPath64(rect, gen.ClonePath(p)) }) {
			continue
		}
		ctx.Eval(1)
		if disjoint && len(single) != 0 {
			fail("outside-path-kept", fmt.Sprintf("path %d lies entirely outside the rectangle but RectClipPath64 returned %v", i, single))
		}
		if insideB && len(p) >= 3 && (len(single) != 1 || !pathEq(single[0], p)) {
			fail("inside-path-changed", fmt.Sprintf("path %d lies entirely inside the rectangle but RectClipPath64 returned %v", i, single))
		}
	}
	// reuse of one object
	var again1, again2 Paths
	if ctx.Guard(digest, "reuse", in, func() {
		rc := clip.NewRectClip64(rect)
		again1 = rc.Execute(gen.Clone(paths))
		again2 = rc.Execute(gen.Clone(paths))
	}) {
		ctx.Eval(2)
		if !pathsEqual(again1, out) || !pathsEqual(again2, out) {
			fail("reuse", fmt.Sprintf("a reused RectClip64 returned %v then %v", again1, again2))
		}
	}
	if crossing && nElig > 0 {
		ctx.Nontrivial(digest)
		if ctx.WantSample() {
			ctx.Sample(map[string]any{"case": id.String(), "rect": q, "paths": paths})
		}
	}
}

// rectEnclosedClass attributes a winding discrepancy inside the rectangle to the clipper's handling of paths that
// go around the rectangle without touching it: such a path contributes the whole rectangle once if an even-odd
// point-in-polygon test of the rectangle's corners says "inside" (orientation taken from the order in which the
// path visits the outside zones), i.e. 0 for an even winding and +1 or -1 for an odd one, instead of its winding
// number. The class is given only if at least one such path exists and the discrepancy equals the sum of
// (winding - contribution) over those paths for some admissible choice of contributions.
func rectEnclosedClass(paths Paths, q rectI, discrepancy int) string {
	rectPath := Path{{X: q.L, Y: q.T}, {X: q.R, Y: q.T}, {X: q.R, Y: q.B}, {X: q.L, Y: q.B}}
	centre := Pt{X: (q.L + q.R) / 2, Y: (q.T + q.B) / 2}
	var ws []int
	for _, p := range paths {
		n := len(p)
		if n < 3 {
			continue
		}
		touches := false
		for i := 0; i < n && !touches; i++ {
			a, b := p[i], p[(i+1)%n]
			if a.X >= q.L && a.X <= q.R && a.Y >= q.T && a.Y <= q.B {
				touches = true
			}
			for j := 0; j < 4 && !touches; j++ {
				if oracle.SegsIntersectExact(a, b, rectPath[j], rectPath[(j+1)%4]) {
					touches = true
				}
			}
		}
		if touches {
			continue
		}
		if w, _ := oracle.WindingPath(p, centre); w != 0 {
			ws = append(ws, w)
		}
	}
	if len(ws) == 0 || len(ws) > 12 {
		return ""
	}
	// reachable sums of (w - c)
	reach := map[int]bool{0: true}
	for _, w := range ws {
		next := map[int]bool{}
		var cs []int
		if w%2 == 0 {
			cs = []int{0}
		} else {
			cs = []int{1, -1}
		}
		for s := range reach {
			for _, c := range cs {
				next[s+w-c] = true
			}
		}
		reach = next
	}
	if discrepancy != 0 && reach[discrepancy] {
		return "rect-enclosed-by-path-winding"
	}
	return ""
}
