package props

import (
	"fmt"
	"math"

	clip "github.com/bolom009/go-clipper2"

	"verifharness/gen"
	"verifharness/oracle"
	"verifharness/run"
)

// C11 — rectangle clipping of lines returns the parts inside the rectangle.

var c11Specs = []famSpec{
	{Family: "rl-rand", FreshQ: 20000, FreshT: 1000000},
	{Family: "rl-snap", FreshQ: 15000, FreshT: 600000},
	{Family: "rl-two", FreshQ: 8000, FreshT: 300000},
}

func init() {
	register(&run.Prop{
		ID: "C11",
		Rule: "case = rectangle + open polylines (>= 2 points). rl-rand: random polylines with horizontal/vertical runs at magnitudes 20..2^28; rl-snap: vertices snapped onto the rectangle's edge lines / corners, runs along an edge, pass-through without interior vertex; rl-two: 2-point segments. " +
			"Checked: every result vertex within the rectangle (<= 1 outside) and within 1 unit of an input line; result vertices follow the input line's order (monotone parameter matching); every sampled point of an input line that is inside the rectangle and > 2 units from its boundary is within 1.5 units of the result; " +
			"all four entry points agree. Non-trivial = some line crosses the rectangle boundary and >= 1 interior sample exists; distinct by input digest.",
		Assumptions: []string{"float64 distances with 0.01 margin; the order check uses the earliest feasible parameter, which can only under-report"},
		Floor:       500,
		Cases:       func(tier string, seed uint64) []run.CaseID { return buildCases(c11Specs, tier, seed) },
		RunCase:     c11Run,
	})
}

func rlInput(id run.CaseID) (Paths, rectI) {
	r := gen.ForCase(id.Family, id.Index, id.Stream)
	R := gen.PickOf(r, int64(20), 200, 5000, 1<<20, 1<<28)
	var q rectI
	a, b := r.Range(-R/2, R/2), r.Range(-R/2, R/2)
	q.L, q.R = min(a, b), max(a, b)+1+r.Range(0, R/4)
	a, b = r.Range(-R/2, R/2), r.Range(-R/2, R/2)
	q.T, q.B = min(a, b), max(a, b)+1+r.Range(0, R/4)
	var lines Paths
	k := 1 + r.Intn(3)
	for i := 0; i < k; i++ {
		n := 2 + r.Intn(7)
		if id.Family == "rl-two" {
			n = 2
		}
		p := make(Path, 0, n)
		for j := 0; j < n; j++ {
			v := Pt{X: r.Range(-R, R), Y: r.Range(-R, R)}
			if id.Family == "rl-snap" || r.Chance(0.1) {
				switch r.Intn(8) {
				case 0:
					v.X = q.L
				case 1:
					v.X = q.R
				case 2:
					v.Y = q.T
				case 3:
					v.Y = q.B
				case 4:
					v = Pt{X: gen.PickOf(r, q.L, q.R), Y: gen.PickOf(r, q.T, q.B)}
				case 5: // on an edge
					if r.Bool() {
						v = Pt{X: gen.PickOf(r, q.L, q.R), Y: r.Range(q.T, q.B)}
					} else {
						v = Pt{X: r.Range(q.L, q.R), Y: gen.PickOf(r, q.T, q.B)}
					}
				case 6: // strictly inside
					v = Pt{X: r.Range(q.L, q.R), Y: r.Range(q.T, q.B)}
				}
			}
			if j > 0 && r.Chance(0.2) {
				if r.Bool() {
					v.Y = p[j-1].Y
				} else {
					v.X = p[j-1].X
				}
			}
			if j > 0 && r.Chance(0.05) {
				v = p[j-1]
			}
			p = append(p, v)
		}
		lines = append(lines, p)
	}
	if r.Chance(0.15) { // a rectangle corner, a line vertex or a line/rectangle crossing exactly on the origin
		dx, dy := anchorShift(r, []Paths{{{{X: q.L, Y: q.T}, {X: q.R, Y: q.T}, {X: q.R, Y: q.B}, {X: q.L, Y: q.B}}}}, []Paths{lines})
		lines = gen.Translate(lines, dx, dy)
		q = rectI{q.L + dx, q.T + dy, q.R + dx, q.B + dy}
	}
	return lines, q
}

// segParamNear returns the smallest parameter t >= from on segment ab (t in
// [0,1]) whose point is within d of p, or -1.
func segParamNear(p, a, b Pt, from, d float64) float64 {
	ax, ay := float64(a.X), float64(a.Y)
	dx, dy := float64(b.X)-ax, float64(b.Y)-ay
	px, py := float64(p.X)-ax, float64(p.Y)-ay
	len2 := dx*dx + dy*dy
	if len2 == 0 {
		if math.Hypot(px, py) <= d && from <= 1 {
			return math.Max(from, 0)
		}
		return -1
	}
	// perpendicular offset h (exact cross product) and projection parameter tc;
	// the points of the line within d of p are tc +- sqrt(d^2-h^2)/len
	ln := math.Sqrt(len2)
	h := math.Abs(oracle.Cross(a, b, p).Float()) / ln
	if h > d {
		return -1
	}
	tc := (px*dx + py*dy) / len2
	hc := math.Sqrt(d*d-h*h) / ln
	t0, t1 := tc-hc, tc+hc
	lo, hi := math.Max(t0, math.Max(from, 0)), math.Min(t1, 1)
	if lo <= hi {
		return lo
	}
	return -1
}

// followsLine reports whether the vertices of res can be matched, in order, to
// non-decreasing positions along line (within distance d).
func followsLine(res, line Path, d float64) bool {
	seg, t := 0, 0.0
	for _, v := range res {
		found := false
		for s := seg; s+1 < len(line) || (len(line) == 1 && s == 0); s++ {
			var a, b Pt
			if len(line) == 1 {
				a, b = line[0], line[0]
			} else {
				a, b = line[s], line[s+1]
			}
			from := 0.0
			if s == seg {
				from = t
			}
			if tt := segParamNear(v, a, b, from-1e-9, d); tt >= 0 {
				seg, t, found = s, tt, true
				break
			}
			if len(line) == 1 {
				break
			}
		}
		if !found {
			return false
		}
	}
	return true
}

func c11Run(ctx *run.Ctx, id run.CaseID) {
	lines, q := rlInput(id)
	in := map[string]any{"rect": q, "lines": lines}
	digest := run.Digest(in)
	rect := q.lib()
	var out Paths
	if !ctx.Guard(digest, "RectClipLinesPaths64", in, func() { out = clip.RectClipLinesPaths64(rect, gen.Clone(lines)) }) {
		return
	}
	ctx.Eval(1)
	fail := func(sub, detail string) {
		ctx.Fail(digest, sub, "", fmt.Sprintf("%s; rect=%+v lines=%v result=%v", detail, q, lines, out), in)
	}
	ledges := oracle.NewEdges(false, lines)
	for _, p := range out {
		if len(p) < 2 {
			fail("short-result", fmt.Sprintf("result path with %d vertices", len(p)))
			break
		}
		bad := false
		for _, v := range p {
			if v.X < q.L-1 || v.X > q.R+1 || v.Y < q.T-1 || v.Y > q.B+1 {
				fail("vertex-outside", fmt.Sprintf("result vertex %s more than 1 unit outside the rectangle", fmtPt(v)))
				bad = true
				break
			}
			if ledges.MinDist(v) > 1.01 {
				fail("vertex-off-line", fmt.Sprintf("result vertex %s is %.3f from every input line", fmtPt(v), ledges.MinDist(v)))
				bad = true
				break
			}
		}
		if bad {
			break
		}
		ok := false
		for _, ln := range lines {
			if followsLine(p, ln, 1.01) {
				ok = true
				break
			}
		}
		ctx.Count("order_checks", 1)
		if !ok {
			fail("order", fmt.Sprintf("result path %v does not follow any input line in input order", p))
			break
		}
	}
	// coverage of interior points of the input lines
	oedges := oracle.NewEdges(false, out)
	crossing, interior := false, 0
	for _, ln := range lines {
		for i := 0; i+1 < len(ln); i++ {
			a, b := ln[i], ln[i+1]
			ain := a.X >= q.L && a.X <= q.R && a.Y >= q.T && a.Y <= q.B
			bin := b.X >= q.L && b.X <= q.R && b.Y >= q.T && b.Y <= q.B
			if ain != bin {
				crossing = true
			}
			if a == b {
				ctx.Count("zero_length_segments_skipped", 1)
				continue
			}
			for _, t := range []float64{0, 0.07, 0.21, 0.33, 0.5, 0.62, 0.8, 0.93, 1} {
				x := float64(a.X) + t*float64(b.X-a.X)
				y := float64(a.Y) + t*float64(b.Y-a.Y)
				mag := math.Max(math.Abs(x), math.Abs(y))
				m := 2.02 + mag*math.Exp2(-40)
				if x > float64(q.L)+m && x < float64(q.R)-m && y > float64(q.T)+m && y < float64(q.B)-m {
					interior++
					ctx.Count("coverage_points", 1)
					if d := oedges.MinDistF(x, y); d > 1.5 {
						fail("coverage", fmt.Sprintf("point (%.2f,%.2f) of input segment %v-%v lies inside the rectangle, > 2 from its boundary, but is %.3f from the result", x, y, a, b, d))
						goto entry
					}
				}
			}
		}
	}
entry:
	// the other entry points
	for i, ln := range lines {
		var single Paths
		if !ctx.Guard(digest, "RectClipLinesPath64", in, func() { single = clip.RectClipLinesPath64(rect, gen.ClonePath(ln)) }) {
			continue
		}
		ctx.Eval(1)
		var want Paths
		ctx.Guard(digest, "RectClipLinesPaths64/single", in, func() { want = clip.RectClipLinesPaths64(rect, Paths{gen.ClonePath(ln)}) })
		if !pathsEqual(single, want) {
			fail("entry-points", fmt.Sprintf("RectClipLinesPath64(line %d)=%v but RectClipLinesPaths64 of that line alone=%v", i, single, want))
		}
	}
	if crossing && interior > 0 {
		ctx.Nontrivial(digest)
		if ctx.WantSample() {
			ctx.Sample(map[string]any{"case": id.String(), "rect": q, "lines": lines, "result": out})
		}
	}
}
