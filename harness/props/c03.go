package props

import (
	"errors"
	"fmt"
	"go/ast"
	"go/parser"
	"go/token"
	"math"
	"os"
	"path/filepath"
	"runtime/debug"
	"sort"
	"strings"

	clip "github.com/bolom009/go-clipper2"

	"verifharness/gen"
	"verifharness/run"
)

// C03 — every entry point is total: no panic, no hang, no failure flag.

var c03Specs = []famSpec{
	{Family: "tot-bool", FreshQ: 12000, FreshT: 600000},
	{Family: "tot-offset", FreshQ: 6000, FreshT: 300000},
	{Family: "tot-rect", FreshQ: 6000, FreshT: 300000},
	{Family: "tot-misc", FreshQ: 4000, FreshT: 200000},
	{Family: "tot-d", FreshQ: 3000, FreshT: 150000},
	{Family: "tot-tree", FreshQ: 600, FreshT: 30000},
}

// exported callables that cannot be reached from outside the package or are
// not operations of the library (documented in DESIGN §8 C03).
var c03Excluded = map[string]string{
	"reuseableDataContainer64.AddPaths": "method of an unexported type with no exported constructor",
	"reuseableDataContainer64.Clear":    "method of an unexported type with no exported constructor",
}

func init() {
	register(&run.Prop{
		ID: "C03",
		Rule: "case = a batch of calls on hostile inputs: empty sets, empty/1-/2-point paths, repeated points, collinear/flat/zero-area/coincident polygons, small dense sets, empty or inverted rectangles, deltas 0/+-0.4/+-0.5/huge, every enum value from 0 to max+2 (ClipType incl. NoClip, FillRule, JoinType, EndType, PathType), nil vs empty slices, nil callbacks, precisions -10..10. " +
			"Every call runs under recover(); loops that rely on invariants to terminate are bounded by the verif step budget (sentinel panic); a worker that dies or hangs is attributed to the case in flight by the parent. Violations: any panic except ErrPrecisionRange from a D-API call with precision outside [-8,8]; a missing ErrPrecisionRange there; Execute*/false. " +
			"API coverage is asserted: the exported functions and methods are extracted from /repo/*.go with go/parser at check time and the run is inconclusive if one was never invoked. Non-trivial = a case in which at least one call received a non-empty input and returned a non-empty output; distinct by case input digest.",
		Assumptions: []string{"hang detection is by logical step budget (1<<27 loop ticks per call) in the hooked loops; unhooked code that spins is caught only by the wall-clock watchdog, which yields 'inconclusive'"},
		Floor:       500,
		Cases:       func(tier string, seed uint64) []run.CaseID { return buildCases(c03Specs, tier, seed) },
		RunCase:     c03Run,
		Post:        c03Post,
	})
}

// exportedAPI parses /repo and lists exported funcs ("Name") and methods ("Type.Name").
func exportedAPI() ([]string, error) {
	files, err := filepath.Glob("/repo/*.go")
	if err != nil {
		return nil, err
	}
	var out []string
	fset := token.NewFileSet()
	for _, f := range files {
		if strings.HasSuffix(f, "_test.go") || strings.HasPrefix(filepath.Base(f), "verif_") {
			continue
		}
		af, err := parser.ParseFile(fset, f, nil, 0)
		if err != nil {
			return nil, err
		}
		for _, d := range af.Decls {
			fd, ok := d.(*ast.FuncDecl)
			if !ok || !fd.Name.IsExported() || strings.HasPrefix(fd.Name.Name, "Verif") {
				continue
			}
			name := fd.Name.Name
			if fd.Recv != nil && len(fd.Recv.List) == 1 {
				t := fd.Recv.List[0].Type
				if st, ok := t.(*ast.StarExpr); ok {
					t = st.X
				}
				if id, ok := t.(*ast.Ident); ok {
					name = id.Name + "." + name
				}
			}
			out = append(out, name)
		}
	}
	sort.Strings(out)
	return out, nil
}

func c03Post(counters map[string]int64) []string {
	api, err := exportedAPI()
	if err != nil {
		return []string{"cannot parse /repo to list the exported API: " + err.Error()}
	}
	var missing []string
	for _, n := range api {
		if _, ex := c03Excluded[n]; ex {
			continue
		}
		if counters["api."+n] == 0 {
			missing = append(missing, n)
		}
	}
	if len(missing) > 0 {
		return []string{fmt.Sprintf("exported API never invoked by the C03 workload (%d): %s", len(missing), strings.Join(missing, ", "))}
	}
	return nil
}

type totCtx struct {
	ctx      *run.Ctx
	digest   string
	in       any
	nonEmpty bool
}

// T runs one API call under recover and counts it.
func (t *totCtx) T(name string, f func()) (ok bool) {
	t.ctx.Count("api."+name, 1)
	t.ctx.Eval(1)
	defer func() {
		if r := recover(); r != nil {
			ok = false
			st := string(debug.Stack())
			site := run.PanicSite(st)
			if sb, isSB := r.(clip.VerifStepBudget); isSB {
				site = "stepbudget@" + sb.Loop
			}
			t.ctx.Fail(t.digest, "panic/"+name, site, fmt.Sprintf("%s panicked: %v\n%s", name, r, run.TrimStack(st)), t.in)
		}
	}()
	f()
	return true
}

// TP runs a D-API call that takes a precision: outside [-8,8] it must panic
// with exactly ErrPrecisionRange, inside it must not panic.
func (t *totCtx) TP(name string, precision int, f func()) {
	t.ctx.Count("api."+name, 1)
	t.ctx.Eval(1)
	var rec any
	var st string
	func() {
		defer func() {
			if r := recover(); r != nil {
				rec = r
				st = string(debug.Stack())
			}
		}()
		f()
	}()
	out := precision < -8 || precision > 8
	switch {
	case out && rec == nil:
		t.ctx.Fail(t.digest, "precision-accepted/"+name, "", fmt.Sprintf("%s accepted precision %d without the documented panic", name, precision), t.in)
	case out && rec != nil:
		if e, ok := rec.(error); !ok || !errors.Is(e, clip.ErrPrecisionRange) {
			t.ctx.Fail(t.digest, "precision-wrong-panic/"+name, run.PanicSite(st), fmt.Sprintf("%s(precision %d) panicked with %v instead of ErrPrecisionRange\n%s", name, precision, rec, run.TrimStack(st)), t.in)
		} else {
			t.ctx.Count("precision_panics_seen", 1)
		}
	case !out && rec != nil:
		site := run.PanicSite(st)
		if sb, isSB := rec.(clip.VerifStepBudget); isSB {
			site = "stepbudget@" + sb.Loop
		}
		t.ctx.Fail(t.digest, "panic/"+name, site, fmt.Sprintf("%s(precision %d) panicked: %v\n%s", name, precision, rec, run.TrimStack(st)), t.in)
	}
}

func (t *totCtx) execFalse(name string, ok bool, extra string) {
	if !ok {
		t.ctx.Fail(t.digest, "execute-false/"+name, "", name+" returned false "+extra, t.in)
	}
}

func hostilePaths(r *gen.Rng) (Paths, Paths) {
	switch r.Intn(6) {
	case 0, 1:
		return gen.Degenerate(r)
	case 2:
		return gen.NearDegenerate(r)
	case 3:
		a, b, _ := gen.Lattice(r)
		return a, b
	case 4:
		a, b, _ := gen.RandDense(r)
		return a, b
	default:
		a, b, _ := gen.Rectilinear(r)
		return a, b
	}
}

func toD(ps Paths, div float64) clip.PathsD {
	if ps == nil {
		return nil
	}
	out := make(clip.PathsD, len(ps))
	for i, p := range ps {
		if p == nil {
			continue
		}
		q := make(clip.PathD, len(p))
		for j, v := range p {
			q[j] = clip.PointD{X: float64(v.X) / div, Y: float64(v.Y) / div}
		}
		out[i] = q
	}
	return out
}

func c03Run(ctx *run.Ctx, id run.CaseID) {
	r := gen.ForCase(id.Family, id.Index, id.Stream)
	subj, clp := hostilePaths(r)
	open := gen.Polylines(r, r.Intn(3), 50, subj)
	t := &totCtx{ctx: ctx}
	switch id.Family {
	case "tot-bool":
		ct := clip.ClipType(r.Intn(7))
		fr := clip.FillRule(r.Intn(6))
		pt := clip.PathType(r.Intn(4))
		t.in = map[string]any{"subject": subj, "clip": clp, "open": open, "clipType": int(ct), "fillRule": int(fr), "pathType": int(pt)}
		t.digest = run.Digest(t.in)
		desc := fmt.Sprintf("(clipType=%d fillRule=%d)", ct, fr)
		var sol Paths
		t.T("BooleanOpPaths64", func() { sol = clip.BooleanOpPaths64(ct, subj, clp, fr) })
		t.nonEmpty = len(sol) > 0
		t.T("UnionPaths64", func() { clip.UnionPaths64(subj, fr) })
		t.T("UnionWithClipPaths64", func() { clip.UnionWithClipPaths64(subj, clp, fr) })
		t.T("IntersectWithClipPaths64", func() { clip.IntersectWithClipPaths64(subj, clp, fr) })
		t.T("DifferenceWithClipPaths64", func() { clip.DifferenceWithClipPaths64(subj, clp, fr) })
		t.T("XorWithClipPaths64", func() { clip.XorWithClipPaths64(subj, clp, fr) })
		var tree *clip.PolyTree64
		t.T("BooleanOpPolyTree64", func() { tree = clip.BooleanOpPolyTree64(ct, subj, clp, fr) })
		if tree != nil {
			t.T("PolyPathBase.ToString", func() { _ = tree.ToString() })
			t.T("PolyPathBase.Count", func() { _ = tree.Count() })
			t.T("PolyPathBase.GetChildren", func() {
				for _, ch := range tree.GetChildren() {
					_ = ch.IsHole()
					_ = ch.Level()
					_ = ch.Polygon()
					_ = ch.Scale()
					_ = ch.ToStringInternal(0, 1)
				}
			})
			ctx.Count("api.PolyPathBase.IsHole", 1)
			ctx.Count("api.PolyPathBase.Level", 1)
			ctx.Count("api.PolyPathBase.Polygon", 1)
			ctx.Count("api.PolyPathBase.Scale", 1)
			ctx.Count("api.PolyPathBase.ToStringInternal", 1)
		}
		// engine object: several adds, open paths, three execute forms
		var c = clip.NewClipper64()
		ctx.Count("api.NewClipper64", 1)
		t.T("clipper64.AddPaths", func() {
			c.AddPaths(subj, clip.Subject, false)
			c.AddPaths(clp, pt, false)
			if ct != clip.NoClip || true {
				c.AddPaths(open, clip.Subject, true)
			}
		})
		t.T("clipperBase.AddPath", func() {
			if len(subj) > 0 {
				c.AddPath(subj[0], clip.Clip, false)
			} else {
				c.AddPath(nil, clip.Subject, false)
			}
		})
		sc, so := Paths{}, Paths{}
		var ok bool
		if t.T("clipper64.ExecuteOC", func() { ok = c.ExecuteOC(ct, fr, &sc, &so) }) {
			t.execFalse("clipper64.ExecuteOC", ok, desc)
		}
		if t.T("clipper64.Execute", func() { ok = c.Execute(ct, fr, &sc) }) {
			t.execFalse("clipper64.Execute", ok, desc)
		}
		tr := clip.NewPolyTree64()
		ctx.Count("api.NewPolyTree64", 1)
		od := clip.PathsD{}
		if t.T("clipper64.ExecutePolyTree64", func() { ok = c.ExecutePolyTree64(ct, fr, tr, &od) }) {
			t.execFalse("clipper64.ExecutePolyTree64", ok, desc)
		}
		t.T("PolyPathBase.Clear", func() { tr.Clear(); tr.AddChild(Path{{X: 1, Y: 1}}); tr.SetScale(2) })
		ctx.Count("api.PolyPathBase.AddChild", 1)
		ctx.Count("api.PolyPathBase.SetScale", 1)
		t.T("NewPolyPathBase", func() { _ = clip.NewPolyPathBase(nil) })
	case "tot-tree":
		// deep nesting (up to 16 levels of concentric rings, several clusters) and the whole tree API on every node
		depth := 2 + r.Intn(15)
		var rings Paths
		R := int64(40 + 30*depth)
		for c := 0; c < 1+r.Intn(2); c++ {
			cx := int64(c) * 3 * R
			for k := 0; k < depth; k++ {
				h := R - int64(k)*20
				if h < 4 {
					break
				}
				rings = append(rings, gen.Box(cx-h, -h, cx+h, h, r.Bool()))
			}
		}
		fr := clip.FillRule(r.Intn(4))
		t.in = map[string]any{"rings": rings, "fillRule": int(fr)}
		t.digest = run.Digest(t.in)
		t.nonEmpty = true
		var walk func(n *clip.PolyPathBase)
		walk = func(n *clip.PolyPathBase) {
			for i, ch := range n.GetChildren() {
				_ = ch.IsHole()
				_ = ch.Level()
				_ = ch.Polygon()
				_ = ch.Count()
				_ = ch.Scale()
				_ = ch.ToString()
				_ = ch.ToStringInternal(i, ch.Level())
				walk(ch)
			}
		}
		var tree *clip.PolyTree64
		if t.T("BooleanOpPolyTree64", func() { tree = clip.BooleanOpPolyTree64(clip.Union, rings, nil, clip.EvenOdd) }) && tree != nil {
			t.T("PolyPathBase.ToString", func() { _ = tree.ToString() })
			t.T("PolyPathBase.ToStringInternal", func() { walk(tree.PolyPathBase) })
		}
		var treeD *clip.PolyTreeD
		if t.T("BooleanOpPolyTreeD", func() {
			treeD = clip.BooleanOpPolyTreeD(clip.Xor, toD(rings, 10), toD(rings[:len(rings)/2], 10), fr, 1)
		}) && treeD != nil {
			t.T("PolyPathBase.ToString", func() { _ = treeD.ToString() })
			t.T("PolyPathBase.ToStringInternal", func() { walk(treeD.PolyPathBase) })
		}
	case "tot-offset":
		delta := gen.PickOf(r, 0, 0.3, -0.4, 0.5, -0.5, 1, -1, 2.5, -7, 40, 1e6, -1e6, 1e9, r.FloatRange(-50, 50))
		jt := clip.JoinType(r.Intn(6))
		et := clip.EndType(r.Intn(7))
		ml := gen.PickOf(r, 0, 0.5, 1, 1.5, 2, 5, 100)
		at := gen.PickOf(r, 0, 0.25, 1, math.Abs(delta)/2, 5*math.Abs(delta))
		if math.Abs(delta) >= 1e5 && at > 0 && at < math.Abs(delta)/1000 {
			// a tiny explicit arc tolerance with a huge delta legitimately asks for ~10^5 arc steps per vertex
			// (minutes of work, not a hang): keep the step budget meaningful by using the default tolerance instead
			at = 0
		}
		paths := subj
		if r.Bool() {
			paths = open
		}
		t.in = map[string]any{"paths": paths, "delta": delta, "joinType": int(jt), "endType": int(et), "miterLimit": ml, "arcTolerance": at}
		t.digest = run.Digest(t.in)
		var sol Paths
		t.T("InflatePaths64", func() {
			sol = clip.InflatePaths64(paths, delta, jt, et, clip.WithMitterLimit(ml), clip.WithArcTolerance(at))
		})
		ctx.Count("api.WithMitterLimit", 1)
		ctx.Count("api.WithArcTolerance", 1)
		t.nonEmpty = len(sol) > 0 && gen.NumVerts(paths) > 0
		t.T("InflatePaths64", func() { clip.InflatePaths64(paths, delta, jt, et) })
		// object API, several groups, executed twice, with and without callback
		co := clip.NewClipperOffset(ml, at, r.Bool(), r.Bool())
		ctx.Count("api.NewClipperOffset", 1)
		t.T("ClipperOffset.AddPaths", func() {
			co.AddPaths(paths, jt, et)
			co.AddPaths(clp, clip.JoinType(r.Intn(4)), clip.EndType(r.Intn(5)))
			co.AddPaths(nil, jt, et)
		})
		t.T("ClipperOffset.CalcSolutionCapacity", func() { _ = co.CalcSolutionCapacity() })
		t.T("ClipperOffset.CheckPathsReversed", func() { _ = co.CheckPathsReversed() })
		out := Paths{}
		t.T("ClipperOffset.Execute64", func() { co.Execute64(delta, &out) })
		t.T("ClipperOffset.Execute64", func() { co.Execute64(-delta, &out) })
		mode := r.Intn(3)
		var cb clip.DeltaCallbackFunc = func(path *Path, norms *clip.PathD, ci, pi uint8) float64 {
			switch mode {
			case 0:
				return delta
			case 1:
				return float64(ci%3) * delta
			}
			return 0
		}
		t.T("ClipperOffset.SetDeltaCallback", func() { co.SetDeltaCallback(&cb) })
		t.T("ClipperOffset.Execute64", func() { co.Execute64(delta, &out) })
		t.T("ClipperOffset.SetDeltaCallback", func() { co.SetDeltaCallback(nil) })
		t.T("ClipperOffset.Execute64", func() { co.Execute64(delta, &out) })
		t.T("NewGroup", func() {
			g := clip.NewGroup(paths, jt, et)
			_, _ = g.GetLowestPathInfo()
			_ = clip.NewGroup(paths, jt)
		})
		ctx.Count("api.Group.GetLowestPathInfo", 1)
		// Minkowski
		var pat, pth Path
		if len(subj) > 0 {
			pat = subj[0]
		}
		if len(clp) > 0 {
			pth = clp[0]
		} else if len(open) > 0 {
			pth = open[0]
		}
		cl := r.Bool()
		t.T("MinkowskiSum64", func() { clip.MinkowskiSum64(pat, pth, cl) })
		t.T("MinkowskiDiff64", func() { clip.MinkowskiDiff64(pat, pth, cl) })
		t.T("MinkowskiSum64", func() { clip.MinkowskiSum64(pth, pat, !cl) })
	case "tot-rect":
		x0, y0, x1, y1 := r.Range(-40, 40), r.Range(-40, 40), r.Range(-40, 40), r.Range(-40, 40)
		if r.Chance(0.5) { // usually a proper rectangle
			x0, x1 = min(x0, x1), max(x0, x1)+r.Range(0, 30)
			y0, y1 = min(y0, y1), max(y0, y1)+r.Range(0, 30)
		}
		if r.Chance(0.3) && len(subj) > 0 && len(subj[0]) > 0 { // snapped
			x0, y0 = subj[0][0].X, subj[0][0].Y
			x1, y1 = x0+r.Range(0, 20), y0+r.Range(0, 20)
		}
		rect := clip.NewRect64(x0, y0, x1, y1)
		ctx.Count("api.NewRect64", 1)
		t.in = map[string]any{"rect": []int64{x0, y0, x1, y1}, "paths": subj, "lines": open}
		t.digest = run.Digest(t.in)
		// paths whose points all lie on the rectangle
		onRect := Path{{X: x0, Y: y0}, {X: x1, Y: y0}, {X: x1, Y: y1}, {X: x0, Y: y1}, {X: x0, Y: (y0 + y1) / 2}}
		all := append(gen.Clone(subj), onRect, gen.Reverse(onRect), onRect[:3])
		var sol Paths
		t.T("RectClipPaths64", func() { sol = clip.RectClipPaths64(rect, all) })
		t.nonEmpty = len(sol) > 0
		t.T("RectClipPath64", func() {
			for _, p := range all {
				clip.RectClipPath64(rect, p)
			}
			clip.RectClipPath64(rect, nil)
		})
		lines := append(gen.Clone(open), onRect, onRect[:2], Path{{X: x0, Y: y0}, {X: x0, Y: y0}})
		t.T("RectClipLinesPaths64", func() { clip.RectClipLinesPaths64(rect, lines) })
		t.T("RectClipLinesPath64", func() {
			for _, p := range lines {
				clip.RectClipLinesPath64(rect, p)
			}
			clip.RectClipLinesPath64(rect, nil)
		})
		t.T("NewRectClip64", func() {
			rc := clip.NewRectClip64(rect)
			rc.Execute(all)
			rc.Execute(all)
		})
		ctx.Count("api.RectClip64.Execute", 1)
		t.T("NewRectClipLines64", func() {
			rc := clip.NewRectClipLines64(rect)
			rc.Execute(lines)
			rc.Execute(lines)
		})
		ctx.Count("api.RectClipLines64.Execute", 1)
		t.T("Rect64.AsPath", func() {
			_ = rect.AsPath()
			_ = rect.IsEmpty()
			_ = rect.IsInvalid()
			_ = rect.MidPoint()
			_ = rect.Contains(clip.NewRect64(x0+1, y0+1, x1-1, y1-1))
			_ = rect.Intersects(clip.NewRect64Invalid(r.Bool()))
			_ = clip.ScaleRect64(rect, 2.5)
		})
		for _, n := range []string{"Rect64.IsEmpty", "Rect64.IsInvalid", "Rect64.MidPoint", "Rect64.Contains", "Rect64.Intersects", "NewRect64Invalid", "ScaleRect64"} {
			ctx.Count("api."+n, 1)
		}
		rd := clip.NewRectD(float64(x0)/3, float64(y0)/3, float64(x1)/3, float64(y1)/3)
		t.T("RectD.AsPath", func() {
			_ = rd.AsPath()
			_ = rd.IsEmpty()
			_ = rd.IsInvalid()
			_ = rd.MidPoint()
			_ = rd.Contains(clip.NewRectDInvalid(r.Bool()))
			_ = rd.Intersects(rd)
			_ = clip.ScaleRectD(rd, 100)
		})
		for _, n := range []string{"NewRectD", "RectD.IsEmpty", "RectD.IsInvalid", "RectD.MidPoint", "RectD.Contains", "RectD.Intersects", "NewRectDInvalid", "ScaleRectD"} {
			ctx.Count("api."+n, 1)
		}
		pd := toD(all, 3)
		t.T("RectClipPathsD", func() { clip.RectClipPathsD(rd, pd) })
		t.T("RectClipPathD", func() { clip.RectClipPathD(rd, pd[0]); clip.RectClipPathD(rd, nil) })
		ld := toD(lines, 3)
		t.T("RectClipLinesPathsD", func() { clip.RectClipLinesPathsD(rd, ld) })
		t.T("RectClipLinesPathD", func() { clip.RectClipLinesPathD(rd, ld[0]); clip.RectClipLinesPathD(rd, nil) })
	case "tot-misc":
		var p Path
		if len(subj) > 0 {
			p = subj[r.Intn(len(subj))]
		}
		eps := gen.PickOf(r, 0, 0.5, 2, 1e9, -1)
		cl := r.Bool()
		t.in = map[string]any{"path": p, "set": subj, "epsilon": eps, "closed": cl}
		t.digest = run.Digest(t.in)
		t.nonEmpty = len(p) >= 3
		pD := toD(Paths{p}, 7)[0]
		sD := toD(subj, 7)
		t.T("Area64", func() { _ = clip.Area64(p) })
		t.T("AreaPaths64", func() { _ = clip.AreaPaths64(subj) })
		t.T("AreaD", func() { _ = clip.AreaD(pD) })
		t.T("AreaPathsD", func() { _ = clip.AreaPathsD(sD) })
		t.T("IsPositive64", func() { _ = clip.IsPositive64(p) })
		t.T("IsPositiveD", func() { _ = clip.IsPositiveD(pD) })
		t.T("GetBounds64", func() { _ = clip.GetBounds64(p) })
		t.T("StripDuplicates", func() { _ = clip.StripDuplicates(p, cl) })
		t.T("TrimCollinear64", func() { _ = clip.TrimCollinear64(p, cl) })
		t.T("SimplifyPath64", func() { _ = clip.SimplifyPath64(p, eps, cl) })
		t.T("SimplifyPaths64", func() { _ = clip.SimplifyPaths64(subj, eps, cl) })
		t.T("SimplifyPathD", func() { _ = clip.SimplifyPathD(pD, eps, cl) })
		t.T("SimplifyPathsD", func() { _ = clip.SimplifyPathsD(sD, eps, cl) })
		q := Pt{X: r.Range(-30, 30), Y: r.Range(-30, 30)}
		t.T("PointInPolygon", func() { _ = clip.PointInPolygon(q, p) })
		t.T("Path2ContainsPath1", func() {
			if len(subj) > 1 {
				_ = clip.Path2ContainsPath1(subj[0], subj[1])
			}
			_ = clip.Path2ContainsPath1(p, p)
			_ = clip.Path2ContainsPath1(nil, p)
		})
		t.T("OffsetPath", func() { _ = clip.OffsetPath(p, 3, -4) })
		t.T("TranslatePath64", func() { _ = clip.TranslatePath64(p, 3, -4) })
		t.T("TranslatePaths64", func() { _ = clip.TranslatePaths64(subj, 3, -4) })
		t.T("TranslatePathD", func() { _ = clip.TranslatePathD(pD, 0.5, -4) })
		t.T("TranslatePathsD", func() { _ = clip.TranslatePathsD(sD, 0.5, -4) })
		sc := gen.PickOf(r, 1.0, 0, -1, 2.5, 1e-3, 1e6)
		t.T("ScalePath64", func() { _ = clip.ScalePath64(p, sc) })
		t.T("ScalePathD", func() { _ = clip.ScalePathD(pD, sc) })
		t.T("ScalePathDToPath64", func() { _ = clip.ScalePathDToPath64(pD, sc) })
		t.T("ScalePath64ToPathD", func() { _ = clip.ScalePath64ToPathD(p, sc) })
		t.T("ScalePathsDToPaths64", func() { _ = clip.ScalePathsDToPaths64(sD, sc) })
		t.T("ScalePaths64ToPathsD", func() { _ = clip.ScalePaths64ToPathsD(subj, sc) })
		t.T("PathDToPath64", func() { _ = clip.PathDToPath64(pD) })
		t.T("PathsDToPaths64", func() { _ = clip.PathsDToPaths64(sD) })
		t.T("Path64ToPathD", func() { _ = clip.Path64ToPathD(p) })
		t.T("Paths64ToPathsD", func() { _ = clip.Paths64ToPathsD(subj) })
		t.T("ReversePath", func() { _ = clip.ReversePath(p); _ = clip.ReversePath([]int{}) })
		rad := gen.PickOf(r, 0, -1, 0.4, 1, 10, 1000)
		steps := gen.PickOf(r, 0, -3, 1, 2, 3, 17)
		t.T("Ellipse64", func() { _ = clip.Ellipse64(q, rad, gen.PickOf(r, 0, rad/2, -1), steps) })
		t.T("EllipseD", func() { _ = clip.EllipseD(clip.PointD{X: 0.5, Y: 1}, rad, 0, steps) })
		t.T("MakePath64", func() { _ = clip.MakePath64(1, 2, 3); _ = clip.MakePath64() })
		t.T("MakePathD", func() { _ = clip.MakePathD(1, 2, 3); _ = clip.MakePathD() })
		t.T("CrossProduct", func() { _ = clip.CrossProduct(q, q, q) })
		t.T("PerpendicDistFromLineSqr64", func() { _ = clip.PerpendicDistFromLineSqr64(q, q, q) })
		t.T("PerpendicDistFromLineSqrD", func() { _ = clip.PerpendicDistFromLineSqrD(clip.PointD{}, clip.PointD{}, clip.PointD{}) })
		t.T("PointsNearEqual", func() { _ = clip.PointsNearEqual(clip.PointD{}, clip.PointD{X: 1}, 0.5) })
		t.T("IsOdd", func() { _ = clip.IsOdd(-3) })
		t.T("NewFloatPoint64", func() { _ = clip.NewFloatPoint64(-0.5, 2.5) })
		t.T("Point64.Add", func() {
			a := q
			a.Add(q)
			a.Sub(q)
			_ = a.Equals(q)
			_ = a.NEquals(q)
			_ = a.ToPointD()
			_ = a.ToPointDScale(0.5)
			_ = a.ToPoint64(clip.PointD{X: -0.5, Y: 0.5})
		})
		for _, n := range []string{"Point64.Sub", "Point64.Equals", "Point64.NEquals", "Point64.ToPointD", "Point64.ToPointDScale", "Point64.ToPoint64"} {
			ctx.Count("api."+n, 1)
		}
		t.T("PointD.Equals", func() {
			a := clip.PointD{X: -1.5, Y: 2.5}
			_ = a.Equals(a)
			_ = a.NEquals(a)
			a.Negate()
			a.Scale(3)
			_ = a.ToPoint64()
			_ = a.ToPoint64Scale(10)
		})
		for _, n := range []string{"PointD.NEquals", "PointD.Negate", "PointD.Scale", "PointD.ToPoint64", "PointD.ToPoint64Scale"} {
			ctx.Count("api."+n, 1)
		}
		t.T("NewVertex", func() {
			v := clip.NewVertex(q, clip.None, nil)
			lm := clip.NewLocalMinima(v, clip.Subject, false)
			_ = lm.Equals(lm)
			_ = clip.NewHorzSegment(nil)
			_ = clip.NewHorzJoin(nil, nil)
			_ = clip.NewIntersectNode(q, nil, nil)
			_ = clip.NewOutPt2(q)
			var vpl clip.VertexPoolList
			vpl.EnsureCapacity(4)
			vpl.Add(q, clip.None, nil)
			clip.SwapFrontBackSides(&clip.OutRec{})
		})
		for _, n := range []string{"NewLocalMinima", "LocalMinima.Equals", "NewHorzSegment", "NewHorzJoin", "NewIntersectNode", "NewOutPt2", "VertexPoolList.EnsureCapacity", "VertexPoolList.Add", "SwapFrontBackSides"} {
			ctx.Count("api."+n, 1)
		}
	case "tot-d":
		prec := int(r.Range(-10, 10))
		if r.Chance(0.3) {
			prec = gen.PickOf(r, -9, -8, 8, 9, 0, 2)
		}
		div := gen.PickOf(r, 1.0, 3.0, 100.0)
		// keep |coordinate| * 10^precision inside the 2^29 domain of the engine (C13 owns larger magnitudes)
		if prec >= -8 && prec <= 8 {
			for float64(gen.MaxAbs(subj, clp, open))/div*math.Pow(10, float64(prec)) > float64(gen.MaxC)/4 {
				div *= 10
			}
		}
		sD, cD, oD := toD(subj, div), toD(clp, div), toD(open, div)
		ct := clip.ClipType(r.Intn(6))
		fr := clip.FillRule(r.Intn(5))
		t.in = map[string]any{"subject": sD, "clip": cD, "open": oD, "precision": prec, "clipType": int(ct), "fillRule": int(fr)}
		t.digest = run.Digest(t.in)
		var sol clip.PathsD
		t.TP("BooleanOpPathsD", prec, func() { sol = clip.BooleanOpPathsD(ct, sD, cD, fr, prec) })
		t.nonEmpty = len(sol) > 0
		t.T("BooleanOpPathsD", func() { clip.BooleanOpPathsD(ct, sD, cD, fr) })
		t.TP("UnionPathsD", prec, func() { clip.UnionPathsD(sD, fr, prec) })
		t.TP("UnionWithClipPathsD", prec, func() { clip.UnionWithClipPathsD(sD, cD, fr, prec) })
		t.TP("IntersectWithClipPathsD", prec, func() { clip.IntersectWithClipPathsD(sD, cD, fr, prec) })
		t.TP("DifferenceWithClipPathsD", prec, func() { clip.DifferenceWithClipPathsD(sD, cD, fr, prec) })
		t.TP("XorWithClipPathsD", prec, func() { clip.XorWithClipPathsD(sD, cD, fr, prec) })
		t.TP("BooleanOpPolyTreeD", prec, func() { clip.BooleanOpPolyTreeD(ct, sD, cD, fr, prec) })
		if prec != 0 {
			var c = clip.NewClipperD(2)
			t.TP("NewClipperD", prec, func() { c = clip.NewClipperD(prec) })
			if prec >= -8 && prec <= 8 {
				t.T("clipperD.AddPaths", func() {
					c.AddPaths(sD, clip.Subject, false)
					c.AddPaths(cD, clip.Clip, false)
					c.AddPaths(oD, clip.Subject, true)
				})
				t.T("clipperD.AddPathsWithScaleFunc", func() { c.AddPathsWithScaleFunc(cD, clip.Clip, false, clip.ScalePathsDToPaths64) })
				a, b := clip.PathsD{}, clip.PathsD{}
				var ok bool
				desc := fmt.Sprintf("(clipType=%d fillRule=%d precision=%d)", ct, fr, prec)
				if t.T("clipperD.ExecuteOC", func() { ok = c.ExecuteOC(ct, fr, &a, &b) }) {
					t.execFalse("clipperD.ExecuteOC", ok, desc)
				}
				if t.T("clipperD.Execute", func() { ok = c.Execute(ct, fr, &a) }) {
					t.execFalse("clipperD.Execute", ok, desc)
				}
				if t.T("clipperD.ExecuteWithScaleFunc", func() { ok = c.ExecuteWithScaleFunc(ct, fr, &a, &b, clip.ScalePath64ToPathD) }) {
					t.execFalse("clipperD.ExecuteWithScaleFunc", ok, desc)
				}
				tr := clip.NewPolyTreeD()
				ctx.Count("api.NewPolyTreeD", 1)
				if t.T("clipperD.ExecutePolyTreeD", func() { ok = c.ExecutePolyTreeD(ct, fr, tr, &b) }) {
					t.execFalse("clipperD.ExecutePolyTreeD", ok, desc)
				}
			}
		}
		delta := gen.PickOf(r, 0, 0.004, -0.3, 1.5, 20) / div
		jt := clip.JoinType(r.Intn(5))
		et := clip.EndType(r.Intn(6))
		t.TP("InflatePathsD", prec, func() { clip.InflatePathsD(sD, delta, jt, et, clip.WithPrecision(prec)) })
		ctx.Count("api.WithPrecision", 1)
		t.T("InflatePathsD", func() { clip.InflatePathsD(oD, delta, jt, et) })
		var pat, pth clip.PathD
		if len(sD) > 0 {
			pat = sD[0]
		}
		if len(cD) > 0 {
			pth = cD[0]
		}
		if prec >= -8 && prec <= 8 { // Minkowski D does not validate precision (observed, not part of the contract checked here)
			t.T("MinkowskiSumD", func() { clip.MinkowskiSumD(pat, pth, r.Bool(), prec) })
			t.T("MinkowskiDiffD", func() { clip.MinkowskiDiffD(pat, pth, r.Bool(), prec) })
			t.T("TrimCollinearD", func() { clip.TrimCollinearD(pat, prec, r.Bool()) })
		}
		rd := clip.NewRectD(-5/div, -5/div, 7.5/div, 9/div)
		t.TP("RectClipPathsD", prec, func() { clip.RectClipPathsD(rd, sD, prec) })
		t.TP("RectClipLinesPathsD", prec, func() { clip.RectClipLinesPathsD(rd, oD, prec) })
	}
	if t.nonEmpty {
		ctx.Nontrivial(t.digest)
		if ctx.WantSample() {
			ctx.Sample(map[string]any{"case": id.String(), "input": t.in})
		}
	}
}

var _ = os.Getenv
