package props

import (
	"fmt"

	clip "github.com/bolom009/go-clipper2"

	"verifharness/gen"
	"verifharness/oracle"
	"verifharness/run"
)

// C17 — results are deterministic and independent of how the input is written down.

var c17Specs = []famSpec{
	{Family: "rand-dense", Pool: 100000, PoolQ: 5000},
	{Family: "lattice", Pool: 100000, PoolQ: 5000},
	{Family: "rectilinear", FreshQ: 2500, FreshT: 80000},
	{Family: "rand-mid", Pool: 40000, PoolQ: 2000},
	{Family: "rand-wide", FreshQ: 2500, FreshT: 100000},
	{Family: "rect-soup", Pool: 30000, PoolQ: 1500},
	{Family: "rect-cavity", Pool: 30000, PoolQ: 1500},
	{Family: "touching", FreshQ: 1500, FreshT: 30000},
	{Family: "stacked", FreshQ: 800, FreshT: 15000},
	{Family: "nested-small", Pool: 20000, PoolQ: 1000},
	{Family: "nested", FreshQ: 1000, FreshT: 30000},
	{Family: "xproc-a", FreshQ: 400, FreshT: 5000},
	{Family: "xproc-b", FreshQ: 400, FreshT: 5000},
}

func init() {
	register(&run.Prop{
		ID: "C17",
		Rule: "case = base input (families as C01) x 2 (clip type, fill rule) pairs; byte-determinism: the same call twice in one process, and (xproc-a/xproc-b families: the same inputs run in two different worker processes) output digests compared across processes; " +
			"spellings: path permutation (also with the permuted sets added in instalments to one engine, an unrelated execution in between), start rotation, repeated closing vertex, repeated arbitrary vertices, single-path reversal under EvenOdd, all-paths reversal under NonZero, all-paths reversal with Positive<->Negative, subject/clip exchange for Union/Intersection/Xor, the 8 symmetries of the square lattice; " +
			"the solution region of each spelling is compared with the base solution (mapped through the symmetry) at integer points > 2 units from every input edge. Non-trivial = base Union run had >= 3 intersections and >= 1 eligible point; distinct by input digest.",
		Assumptions: []string{"region comparison by exact winding of both solutions at sampled eligible points"},
		Floor:       300,
		Cases: func(tier string, seed uint64) []run.CaseID {
			cs := buildCases(c17Specs, tier, seed)
			// reverse the xproc-b block so that the two copies of an input never land in the same worker process
			lo, hi := -1, -1
			for i, c := range cs {
				if c.Family == "xproc-b" {
					if lo < 0 {
						lo = i
					}
					hi = i
				}
			}
			for lo >= 0 && lo < hi {
				cs[lo], cs[hi] = cs[hi], cs[lo]
				lo++
				hi--
			}
			if len(cs)%2 == 1 { // keep position parity argument valid: block length is even by construction
				return cs
			}
			return cs
		},
		RunCase: c17Run,
	})
}

type sym struct {
	name string
	f    func(Pt) Pt
	flip bool // orientation reversing
}

var syms = []sym{
	{"rot90", func(p Pt) Pt { return Pt{X: -p.Y, Y: p.X} }, false},
	{"rot180", func(p Pt) Pt { return Pt{X: -p.X, Y: -p.Y} }, false},
	{"rot270", func(p Pt) Pt { return Pt{X: p.Y, Y: -p.X} }, false},
	{"mirrorX", func(p Pt) Pt { return Pt{X: -p.X, Y: p.Y} }, true},
	{"mirrorY", func(p Pt) Pt { return Pt{X: p.X, Y: -p.Y} }, true},
	{"transpose", func(p Pt) Pt { return Pt{X: p.Y, Y: p.X} }, true},
	{"antitranspose", func(p Pt) Pt { return Pt{X: -p.Y, Y: -p.X} }, true},
}

func mapPaths(ps Paths, f func(Pt) Pt) Paths {
	if ps == nil {
		return nil
	}
	out := make(Paths, len(ps))
	for i, p := range ps {
		q := make(Path, len(p))
		for j, v := range p {
			q[j] = f(v)
		}
		out[i] = q
	}
	return out
}

func reverseAll(ps Paths) Paths {
	if ps == nil {
		return nil
	}
	out := make(Paths, len(ps))
	for i, p := range ps {
		out[i] = gen.Reverse(p)
	}
	return out
}

func c17Run(ctx *run.Ctx, id run.CaseID) {
	gid := id
	xproc := false
	if id.Family == "xproc-a" || id.Family == "xproc-b" {
		xproc = true
		gid.Family = gen.PickOf(gen.ForCase("xproc", id.Index, id.Stream), "rand-dense", "lattice", "rand-wide", "rectilinear")
	}
	subj, clp := boolInput(gid)
	if clp == nil {
		clp = Paths{}
	}
	in := boolCaseJSON{subj, clp}
	digest := run.Digest(in)
	if gen.MaxAbs(subj, clp) > gen.MaxC {
		return
	}
	r := gen.ForCase(gid.Family+"#c17", id.Index, id.Stream)
	if xproc {
		// all 16 operations, digest of all outputs, compared across processes by the parent
		var all []Paths
		if ctx.Guard(digest, "xproc", in, func() {
			for _, ct := range clipTypes {
				for _, fr := range fillRules {
					all = append(all, clip.BooleanOpPaths64(ct, subj, clp, fr))
				}
			}
			all = append(all, clip.InflatePaths64(subj, 3.5, clip.Round, clip.Polygon), clip.MinkowskiSum64(Path{{X: 0, Y: 0}, {X: 3, Y: 1}, {X: 1, Y: 4}}, firstPath(subj), true))
		}) {
			ctx.Eval(18)
			ctx.Note(fmt.Sprintf("xproc/%d/%d", id.Index, id.Stream), run.Digest(all))
			ctx.Nontrivial(digest)
		}
		return
	}
	edges := oracle.NewEdges(true, subj, clp)
	var elig []Pt
	for _, p := range candidates(r, 40, subj, clp) {
		if edges.FartherThan(p, 2) {
			elig = append(elig, p)
		}
	}
	ctx.Count("eligible_points", int64(len(elig)))
	nontrivial := false
	for k := 0; k < 2; k++ {
		ct := clipTypes[r.Intn(4)]
		fr := fillRules[r.Intn(4)]
		tag := ctName(ct) + "/" + frName(fr)
		var base Paths
		var rec *clip.VerifRecorder
		if !ctx.Guard(digest, "base/"+tag, in, func() { base, rec, _ = execBool(subj, clp, ct, fr, false) }) {
			continue
		}
		ctx.Eval(1)
		if rec.Counts["intersect"] >= 3 && len(elig) > 0 {
			nontrivial = true
		}
		// byte determinism in-process
		var again, viaFn Paths
		if ctx.Guard(digest, "determinism/"+tag, in, func() {
			again, _, _ = execBool(gen.Clone(subj), gen.Clone(clp), ct, fr, false)
			viaFn = clip.BooleanOpPaths64(ct, subj, clp, fr)
		}) {
			ctx.Eval(2)
			if !pathsEqual(base, again) || !pathsEqual(base, viaFn) {
				ctx.Fail(digest, "determinism/"+tag, "", fmt.Sprintf("two calls with equal inputs differ: %v vs %v vs %v", base, again, viaFn), in)
			}
		}
		baseIn := make([]bool, len(elig))
		for i, p := range elig {
			w, on := oracle.Winding(base, p)
			baseIn[i] = w != 0 || on
		}
		type spelling struct {
			name   string
			s, c   Paths
			ct     clip.ClipType
			fr     clip.FillRule
			mapPt  func(Pt) Pt
			wantOK bool
			exec   func() Paths // nil: BooleanOpPaths64
		}
		var sp []spelling
		add := func(name string, s, c Paths, ct2 clip.ClipType, fr2 clip.FillRule, f func(Pt) Pt) {
			sp = append(sp, spelling{name, s, c, ct2, fr2, f, true, nil})
		}
		// permutation of paths
		perm := func(ps Paths) Paths {
			out := make(Paths, len(ps))
			for i, j := range r.Perm(len(ps)) {
				out[i] = ps[j]
			}
			return out
		}
		add("permute", perm(subj), perm(clp), ct, fr, nil)
		// the same paths written down in instalments: permuted subject, an unrelated execution, then the permuted clip
		{
			ps, pc := perm(subj), perm(clp)
			sp = append(sp, spelling{"permute-in-instalments", ps, pc, ct, fr, nil, true, func() Paths {
				c := clip.NewClipper64()
				c.AddPaths(ps, clip.Subject, false)
				tmp := Paths{}
				c.Execute(clip.Union, fr, &tmp)
				half := len(pc) / 2
				c.AddPaths(pc[half:], clip.Clip, false)
				c.AddPaths(pc[:half], clip.Clip, false)
				sol := Paths{}
				c.Execute(ct, fr, &sol)
				return sol
			}})
		}
		// start rotation
		rot := func(ps Paths) Paths {
			out := make(Paths, len(ps))
			for i, p := range ps {
				if len(p) == 0 {
					out[i] = p
					continue
				}
				k := r.Intn(len(p))
				out[i] = append(append(Path{}, p[k:]...), p[:k]...)
			}
			return out
		}
		add("rotate-start", rot(subj), rot(clp), ct, fr, nil)
		// closing vertex repeated
		cl := func(ps Paths) Paths {
			out := make(Paths, len(ps))
			for i, p := range ps {
				if len(p) == 0 {
					out[i] = p
					continue
				}
				out[i] = append(append(Path{}, p...), p[0])
			}
			return out
		}
		add("closing-vertex", cl(subj), cl(clp), ct, fr, nil)
		// arbitrary vertices repeated
		dup := func(ps Paths) Paths {
			out := make(Paths, len(ps))
			for i, p := range ps {
				var q Path
				for _, v := range p {
					q = append(q, v)
					for r.Chance(0.3) {
						q = append(q, v)
					}
				}
				out[i] = q
			}
			return out
		}
		add("repeat-vertices", dup(subj), dup(clp), ct, fr, nil)
		switch fr {
		case clip.EvenOdd:
			one := func(ps Paths) Paths {
				out := gen.Clone(ps)
				if len(out) > 0 {
					k := r.Intn(len(out))
					out[k] = gen.Reverse(out[k])
				}
				return out
			}
			add("reverse-one/EvenOdd", one(subj), one(clp), ct, fr, nil)
		case clip.NonZero:
			add("reverse-all/NonZero", reverseAll(subj), reverseAll(clp), ct, fr, nil)
		case clip.Positive:
			add("reverse-all/Pos->Neg", reverseAll(subj), reverseAll(clp), ct, clip.Negative, nil)
		case clip.Negative:
			add("reverse-all/Neg->Pos", reverseAll(subj), reverseAll(clp), ct, clip.Positive, nil)
		}
		if ct != clip.Difference {
			add("swap-subject-clip", clp, subj, ct, fr, nil)
		}
		for _, sy := range syms {
			fr2 := fr
			if sy.flip {
				if fr == clip.Positive {
					fr2 = clip.Negative
				} else if fr == clip.Negative {
					fr2 = clip.Positive
				}
			}
			add("symmetry/"+sy.name, mapPaths(subj, sy.f), mapPaths(clp, sy.f), ct, fr2, sy.f)
		}
		for _, s := range sp {
			var sol Paths
			if !ctx.Guard(digest, "spelling/"+s.name+"/"+tag, in, func() {
				if s.exec != nil {
					sol = s.exec()
				} else {
					sol = clip.BooleanOpPaths64(s.ct, s.s, s.c, s.fr)
				}
			}) {
				continue
			}
			ctx.Eval(1)
			for i, p := range elig {
				q := p
				if s.mapPt != nil {
					q = s.mapPt(p)
				}
				w, on := oracle.Winding(sol, q)
				ctx.Count("points_compared", 1)
				if (w != 0 || on) != baseIn[i] {
					class := discardClassPoint(subj, clp, ct, fr, p)
					if class == "" {
						class = discardClassPoint(s.s, s.c, s.ct, s.fr, q)
					}
					ctx.Fail(digest, "spelling/"+s.name+"/"+tag, class, fmt.Sprintf("region differs at %s (mapped %s): base inside=%v, spelling winding=%d; base solution=%v spelling input subject=%v clip=%v solution=%v",
						fmtPt(p), fmtPt(q), baseIn[i], w, base, s.s, s.c, sol), in)
					break
				}
			}
		}
	}
	if nontrivial {
		ctx.Nontrivial(digest)
		if ctx.WantSample() {
			ctx.Sample(map[string]any{"case": id.String(), "subject": subj, "clip": clp, "spellings": 16})
		}
	}
}

func firstPath(ps Paths) Path {
	for _, p := range ps {
		if len(p) > 0 {
			return p
		}
	}
	return Path{{X: 0, Y: 0}}
}
