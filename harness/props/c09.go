package props

import (
	"fmt"
	"math"

	clip "github.com/bolom009/go-clipper2"

	"verifharness/gen"
	"verifharness/oracle"
	"verifharness/run"
)

// C09 — open subject paths are cut exactly at the clip region boundary.

var c09Specs = []famSpec{
	{Family: "open-dense", FreshQ: 8000, FreshT: 100000},
	{Family: "open-lattice", FreshQ: 6000, FreshT: 60000},
	{Family: "open-wide-snap", FreshQ: 3000, FreshT: 60000},
	{Family: "open-wide", FreshQ: 5000, FreshT: 100000},
	{Family: "open-nested", FreshQ: 4000, FreshT: 200000},
	{Family: "open-big", FreshQ: 150, FreshT: 4000},
}

func init() {
	register(&run.Prop{
		ID: "C09",
		Rule: "case = open subject polylines (horizontal runs, vertices snapped to clip vertices / edge midpoints) + closed clip set (+ optional closed subject set) from the rand-dense, lattice, rand-wide and nested generators, open-big: 3..8 polylines of 20..80 vertices against curves of 200..1000 vertices or 20..40 polygons; executed with Intersection, Union, Difference, Xor under 2 fill rules per case through Clipper64.ExecuteOC (and ClipperD on the same integers for one of them; the open solution handed back by ExecutePolyTree64 must equal ExecuteOC's). " +
			"Checked: every open-solution vertex within 1.5 units (intersection points are truncated, not rounded) of a subject line; sampled points of the subject lines that are > 2 units from every closed input edge are covered by the open solution (distance <= 1.5) exactly when the predicate for the clip type holds (inside clip for Intersection, outside clip for Difference/Xor, outside both closed regions for Union), winding exact; " +
			"the closed solution equals, outside the band, the closed solution of the execution without open paths. Non-trivial = at least one sample covered and one not covered; distinct by input digest.",
		Assumptions: []string{"exact winding of sample points about the closed inputs; coverage by float distance; zero-length open segments are skipped and counted"},
		Floor:       400,
		Cases:       func(tier string, seed uint64) []run.CaseID { return buildCases(c09Specs, tier, seed) },
		RunCase:     c09Run,
	})
}

type openCase struct {
	Open    Paths `json:"open"`
	Subject Paths `json:"closedSubject"`
	Clip    Paths `json:"clip"`
}

func openInput0(id run.CaseID) openCase {
	r := gen.ForCase(id.Family, id.Index, id.Stream)
	var oc openCase
	var R int64
	switch id.Family {
	case "open-dense":
		oc.Subject, oc.Clip, R = gen.RandDense(r)
	case "open-lattice":
		var sc int64
		oc.Subject, oc.Clip, sc = gen.Lattice(r)
		R = 9 * sc
	case "open-wide", "open-wide-snap":
		oc.Subject, oc.Clip, R = gen.RandWide(r)
	case "open-big": // clip curves of 200..1000 vertices (or 20..40 star polygons) cut by 3..8 polylines of 20..80 vertices
		R = gen.PickOf(r, int64(1000000), 1<<27)
		if r.Bool() { // simple closed curves: the closed solution is not the subject of this property (C01 covers self-intersecting curves)
			oc.Clip = Paths{gen.StarPoly(r, r.Range(-R/4, R/4), r.Range(-R/4, R/4), float64(R)*0.5, float64(R)*0.8, 200+r.Intn(801), r.Bool())}
			if r.Bool() {
				oc.Clip = append(oc.Clip, gen.StarPoly(r, r.Range(-R/4, R/4), r.Range(-R/4, R/4), float64(R)*0.2, float64(R)*0.4, 100+r.Intn(300), r.Bool()))
			}
		} else {
			for k := 0; k < 20+r.Intn(21); k++ {
				oc.Clip = append(oc.Clip, gen.StarPoly(r, r.Range(-R, R), r.Range(-R, R), float64(R)*0.05, float64(R)*0.3, 3+r.Intn(12), r.Bool()))
			}
		}
		for k := 0; k < 3+r.Intn(6); k++ {
			n := 20 + r.Intn(61)
			ln := make(Path, n)
			for i := range ln {
				ln[i] = Pt{X: r.Range(-R, R), Y: r.Range(-R, R)}
				if i > 0 && r.Chance(0.15) { // horizontal runs, some doubling back on themselves
					ln[i].Y = ln[i-1].Y
				}
			}
			oc.Open = append(oc.Open, ln)
		}
		return oc
	default:
		Rf := gen.PickOf(r, 60.0, 500.0, 20000.0, 3.0e6)
		R = int64(Rf)
		oc.Clip, _ = gen.Nested(r, 1+r.Intn(2), 5, Rf, true, r.Chance(0.3))
		oc.Subject = nil
	}
	if len(oc.Clip) == 0 {
		oc.Clip, oc.Subject = oc.Subject, nil
	}
	if r.Chance(0.5) {
		oc.Subject = nil
	}
	snap := append(gen.Clone(oc.Clip), oc.Subject...)
	if id.Family == "open-wide" || id.Family == "open-nested" {
		snap = nil
	}
	oc.Open = gen.Polylines(r, 1+r.Intn(3), R+R/4, snap)
	return oc
}

// openInput is openInput0, with 15 % of the cases shifted so that a vertex or an edge crossing lies exactly on the origin.
func openInput(id run.CaseID) openCase {
	oc := openInput0(id)
	r := gen.ForCase(id.Family+"#anchor", id.Index, id.Stream)
	if r.Chance(0.15) {
		dx, dy := anchorShift(r, []Paths{oc.Clip, oc.Subject}, []Paths{oc.Open})
		oc.Clip, oc.Subject, oc.Open = gen.Translate(oc.Clip, dx, dy), gen.Translate(oc.Subject, dx, dy), gen.Translate(oc.Open, dx, dy)
	}
	return oc
}

func c09Run(ctx *run.Ctx, id run.CaseID) {
	oc := openInput(id)
	digest := run.Digest(oc)
	if gen.MaxAbs(oc.Open, oc.Subject, oc.Clip) > gen.MaxC {
		return
	}
	r := gen.ForCase(id.Family+"#c09", id.Index, id.Stream)
	cedges := oracle.NewEdges(true, oc.Clip, oc.Subject)
	// sample points on the open lines (integer points near rational parameters are not ON the line, so use float samples
	// for coverage and the rounded point for winding: the rounded point is within 0.71 of the sample and both are > 2 from closed edges)
	type sample struct {
		x, y   float64
		wS, wC int
	}
	var samples []sample
	for _, ln := range oc.Open {
		for i := 0; i+1 < len(ln); i++ {
			a, b := ln[i], ln[i+1]
			if a == b {
				ctx.Count("zero_length_segments_skipped", 1)
				continue
			}
			for _, t := range []float64{0.03, 0.17, 0.29, 0.41, 0.5, 0.63, 0.77, 0.9, 0.98} {
				x := float64(a.X) + t*float64(b.X-a.X)
				y := float64(a.Y) + t*float64(b.Y-a.Y)
				q := Pt{X: int64(math.Round(x)), Y: int64(math.Round(y))}
				if !cedges.FartherThan(q, 3.5) {
					continue
				}
				wS, _ := oracle.Winding(oc.Subject, q)
				wC, _ := oracle.Winding(oc.Clip, q)
				samples = append(samples, sample{x, y, wS, wC})
			}
		}
	}
	ctx.Count("eligible_samples", int64(len(samples)))
	oedgesIn := oracle.NewEdges(false, oc.Open)
	sawCov, sawUncov := false, false
	// the engine's PreserveCollinear option (reachable only through the verif hook: the engine's default is true) must
	// not change what happens to OPEN paths; it is switched off for the second fill rule of every other case
	ropt := gen.ForCase(id.Family+"#opt", id.Index, id.Stream)
	for k := 0; k < 2; k++ {
		optPC := !(k == 1 && ropt.Bool())
		fr := fillRules[r.Intn(4)]
		for _, ct := range clipTypes {
			tag := ctName(ct) + "/" + frName(fr)
			if !optPC {
				tag += "/pc=false"
			}
			var closed, open, closedOnly Paths
			var ok bool
			rec := clip.NewVerifRecorder(false)
			if !ctx.Guard(digest, tag, oc, func() {
				c := clip.NewClipper64()
				c.VerifRecord(rec)
				c.VerifSetOptions(optPC, false)
				c.AddPaths(oc.Open, clip.Subject, true)
				c.AddPaths(oc.Subject, clip.Subject, false)
				c.AddPaths(oc.Clip, clip.Clip, false)
				closed, open = Paths{}, Paths{}
				ok = c.ExecuteOC(ct, fr, &closed, &open)
				c2 := clip.NewClipper64()
				c2.AddPaths(oc.Subject, clip.Subject, false)
				c2.AddPaths(oc.Clip, clip.Clip, false)
				closedOnly = Paths{}
				c2.Execute(ct, fr, &closedOnly)
			}) {
				continue
			}
			ctx.Eval(2)
			if k == 0 && ct == clip.Intersection {
				addCounts(ctx, rec)
			}
			class := ""
			fail := func(sub, detail string) {
				ctx.Fail(digest, sub+"/"+tag, class, fmt.Sprintf("%s; open=%v closedSubject=%v clip=%v openSolution=%v closedSolution=%v", detail, oc.Open, oc.Subject, oc.Clip, open, closed), oc)
			}
			if !ok {
				fail("execute-false", "ExecuteOC returned false")
				continue
			}
			// vertices on the subject lines
			bad := false
			for _, p := range open {
				if len(p) < 2 {
					ctx.Count("single_point_open_paths_observed", 1)
				}
				for _, v := range p {
					if d := oedgesIn.MinDist(v); d > 1.5 {
						fail("vertex-off-line", fmt.Sprintf("open solution vertex %s is %.3f from every subject line", fmtPt(v), d))
						bad = true
						break
					}
				}
				if bad {
					break
				}
			}
			if bad {
				continue
			}
			// coverage
			sol := oracle.NewEdges(false, open)
			for _, s := range samples {
				inS, inC := oracle.Fill(fr, s.wS), oracle.Fill(fr, s.wC)
				var want bool
				switch ct {
				case clip.Intersection:
					want = inC
				case clip.Union:
					want = !inS && !inC
				default: // Difference, Xor: the part outside the clip region
					want = !inC
				}
				d := sol.MinDistF(s.x, s.y)
				ctx.Count("coverage_points", 1)
				if want {
					sawCov = true
				} else {
					sawUncov = true
				}
				if want && d > 1.5 {
					fail("uncovered", fmt.Sprintf("point (%.1f,%.1f) of a subject line (winding subject=%d clip=%d) must be in the open solution but is %.2f from it", s.x, s.y, s.wS, s.wC, d))
					break
				}
				if !want && d < 0.25 {
					fail("overcovered", fmt.Sprintf("point (%.1f,%.1f) of a subject line (winding subject=%d clip=%d) must not be in the open solution but is %.2f from it", s.x, s.y, s.wS, s.wC, d))
					break
				}
			}
			// closed solution unaffected by the open paths (region comparison)
			e2 := oracle.NewEdges(true, oc.Clip, oc.Subject)
			for _, p := range candidates(r, 20, oc.Clip, oc.Subject) {
				if !e2.FartherThan(p, 2) {
					continue
				}
				w1, o1 := oracle.Winding(closed, p)
				w2, o2 := oracle.Winding(closedOnly, p)
				ctx.Count("closed_points_compared", 1)
				if (w1 != 0 || o1) != (w2 != 0 || o2) {
					// the open paths add scanlines (and nothing else) to the sweep of the closed paths; where the closed-only
					// result is itself fragile (KF repair-discarded-loop: a join / repair event triangle), one more scanline can
					// change which sliver is dropped. Attributable only if the witness lies in such an event triangle of one
					// of the two executions.
					cls := ""
					evs := discardEventsAdds([]*addOp{{Paths: oc.Subject, Type: int(clip.Subject)}, {Paths: oc.Clip, Type: int(clip.Clip)}}, ct, fr)
					evs = append(evs, discardEventsAdds([]*addOp{{Paths: oc.Open, Type: int(clip.Subject), Open: true}, {Paths: oc.Subject, Type: int(clip.Subject)}, {Paths: oc.Clip, Type: int(clip.Clip)}}, ct, fr)...)
					for _, t := range evs {
						if t.containsInflated(p, 2.5) {
							cls = "repair-discarded-loop"
						}
					}
					defer func() { class = "" }()
					class = cls
					fail("closed-altered", fmt.Sprintf("closed solution differs at %s from the execution without open paths: %v vs %v", fmtPt(p), closed, closedOnly))
					class = ""
					break
				}
			}
			if math.IsNaN(0) {
				_ = gen.MaxC
			}
		}
	}
	// the tree entry point returns the open solution too: it must be the one ExecuteOC returns
	{
		ct, fr := clipTypes[r.Intn(4)], fillRules[r.Intn(4)]
		var openOC Paths
		var openTree clip.PathsD
		if ctx.Guard(digest, "ExecutePolyTree64", oc, func() {
			mk := func() interface {
				ExecuteOC(clip.ClipType, clip.FillRule, *Paths, *Paths) bool
				ExecutePolyTree64(clip.ClipType, clip.FillRule, *clip.PolyTree64, *clip.PathsD) bool
			} {
				c := clip.NewClipper64()
				c.AddPaths(oc.Open, clip.Subject, true)
				c.AddPaths(oc.Subject, clip.Subject, false)
				c.AddPaths(oc.Clip, clip.Clip, false)
				return c
			}
			cl := Paths{}
			openOC = Paths{}
			mk().ExecuteOC(ct, fr, &cl, &openOC)
			openTree = clip.PathsD{{{X: 1, Y: 2}}} // pre-filled: must be replaced
			mk().ExecutePolyTree64(ct, fr, clip.NewPolyTree64(), &openTree)
		}) {
			ctx.Eval(2)
			same := len(openTree) == len(openOC)
			for i := 0; same && i < len(openOC); i++ {
				same = len(openTree[i]) == len(openOC[i])
				for j := 0; same && j < len(openOC[i]); j++ {
					same = openTree[i][j].X == float64(openOC[i][j].X) && openTree[i][j].Y == float64(openOC[i][j].Y)
				}
			}
			ctx.Count("tree_open_solutions_compared", 1)
			if !same {
				ctx.Fail(digest, "tree-open/"+ctName(ct)+"/"+frName(fr), "", fmt.Sprintf("ExecutePolyTree64 returns the open solution %v, ExecuteOC %v", openTree, openOC), oc)
			}
		}
	}
	// ClipperD on the same integers (precision 1, coordinates/10): open solution must be the same numbers/10
	if gen.MaxAbs(oc.Open, oc.Subject, oc.Clip) < gen.MaxC/16 {
		fr := fillRules[r.Intn(4)]
		var open64 Paths
		var openD clip.PathsD
		if ctx.Guard(digest, "ClipperD", oc, func() {
			c := clip.NewClipper64()
			c.AddPaths(oc.Open, clip.Subject, true)
			c.AddPaths(oc.Clip, clip.Clip, false)
			cl := Paths{}
			open64 = Paths{}
			c.ExecuteOC(clip.Intersection, fr, &cl, &open64)
			d := clip.NewClipperD(1)
			d.AddPaths(toD(oc.Open, 10), clip.Subject, true)
			d.AddPaths(toD(oc.Clip, 10), clip.Clip, false)
			cd, od := clip.PathsD{}, clip.PathsD{}
			d.ExecuteOC(clip.Intersection, fr, &cd, &od)
			openD = od
		}) {
			ctx.Eval(2)
			same := len(openD) == len(open64)
			for i := 0; same && i < len(open64); i++ {
				same = len(openD[i]) == len(open64[i])
				for j := 0; same && j < len(open64[i]); j++ {
					same = math.Abs(openD[i][j].X*10-float64(open64[i][j].X)) < 1e-6 && math.Abs(openD[i][j].Y*10-float64(open64[i][j].Y)) < 1e-6
				}
			}
			if !same {
				ctx.Fail(digest, "ClipperD-open", "", fmt.Sprintf("ClipperD open solution %v differs from Clipper64's %v (/10)", openD, open64), oc)
			}
		}
	}
	if sawCov && sawUncov {
		ctx.Nontrivial(digest)
		if ctx.WantSample() {
			ctx.Sample(map[string]any{"case": id.String(), "input": oc})
		}
	}
}
