package props

import (
	"fmt"
	"math"

	clip "github.com/bolom009/go-clipper2"

	"verifharness/gen"
	"verifharness/oracle"
	"verifharness/run"
)

type Pt = clip.Point64
type Path = clip.Path64
type Paths = clip.Paths64

var clipTypes = []clip.ClipType{clip.Intersection, clip.Union, clip.Difference, clip.Xor}
var fillRules = []clip.FillRule{clip.EvenOdd, clip.NonZero, clip.Positive, clip.Negative}

func ctName(ct clip.ClipType) string {
	switch ct {
	case clip.NoClip:
		return "NoClip"
	case clip.Intersection:
		return "Intersection"
	case clip.Union:
		return "Union"
	case clip.Difference:
		return "Difference"
	case clip.Xor:
		return "Xor"
	}
	return fmt.Sprintf("ClipType(%d)", ct)
}

func frName(fr clip.FillRule) string {
	switch fr {
	case clip.EvenOdd:
		return "EvenOdd"
	case clip.NonZero:
		return "NonZero"
	case clip.Positive:
		return "Positive"
	case clip.Negative:
		return "Negative"
	}
	return fmt.Sprintf("FillRule(%d)", fr)
}

// boolInput generates the closed subject/clip sets of a boolean-operation case.
func boolInput(id run.CaseID) (subj, clp Paths) {
	r := gen.ForCase(id.Family, id.Index, id.Stream)
	switch id.Family {
	case "rand-dense":
		subj, clp, _ = gen.RandDense(r)
	case "rand-wide": // fresh: magnitudes 10^6 .. 2^29 (generic position)
		subj, clp, _ = gen.RandWideR(r, []int64{1000000, 1 << 20, 1 << 26, 1 << 29})
	case "rand-mid": // closed pool: +-10^4, where near-coincidences of random edges are still frequent enough to meet engine defects
		subj, clp, _ = gen.RandWideR(r, []int64{10000})
	case "lattice":
		subj, clp, _ = gen.Lattice(r)
	case "rectilinear":
		subj, clp, _ = gen.Rectilinear(r)
	case "nested":
		R := gen.PickOf(r, 60.0, 500.0, 20000.0, 3.0e6, 2.0e8)
		subj, _ = gen.Nested(r, 1+r.Intn(3), 6, R, r.Chance(0.7), r.Chance(0.3))
		if r.Chance(0.6) {
			clp, _ = gen.Nested(r, 1+r.Intn(2), 4, R*r.FloatRange(0.5, 1.2), r.Chance(0.7), false)
			clp = gen.Translate(clp, int64(r.FloatRange(-0.5, 0.5)*R), int64(r.FloatRange(-0.5, 0.5)*R))
		}
	case "degenerate", "degenerate-wide":
		if id.Family == "degenerate" {
			subj, clp = gen.Degenerate(r)
		} else {
			subj, clp = gen.DegenerateR(r, []int64{1000, 1 << 20, 1 << 28})
		}
		if subj == nil {
			subj = Paths{}
		}
	case "near-degenerate":
		subj, clp = gen.NearDegenerate(r)
	case "big-n":
		subj, clp = gen.BigNR(r, 200, 1500, []int64{1000000, 1 << 27})
	case "big-n-mid": // closed pool
		subj, clp = gen.BigNR(r, 200, 1500, []int64{20000})
	case "big-n-xl":
		subj, clp = gen.BigNR(r, 1500, 5000, []int64{1000000, 1 << 27})
	default:
		panic("unknown family " + id.Family)
	}
	return
}

type boolCaseJSON struct {
	Subject Paths `json:"subject"`
	Clip    Paths `json:"clip"`
}

// candidates proposes integer sample points: uniform in the bounding box, near
// vertices, near pairwise edge intersections, centroids of vertex triples and
// midpoints of vertex pairs.
func candidates(r *gen.Rng, nUniform int, sets ...Paths) []Pt {
	minX, minY, maxX, maxY, ok := oracle.Bounds(sets...)
	if !ok {
		return []Pt{{X: 0, Y: 0}, {X: 5, Y: 5}}
	}
	var verts []Pt
	for _, s := range sets {
		for _, p := range s {
			verts = append(verts, p...)
		}
	}
	var out []Pt
	for i := 0; i < nUniform; i++ {
		out = append(out, Pt{X: r.Range(minX-4, maxX+4), Y: r.Range(minY-4, maxY+4)})
	}
	nv := len(verts)
	off := func(k int64) int64 { return r.Range(-k, k) }
	// near vertices
	lim := min(nv, 60)
	for i := 0; i < lim; i++ {
		v := verts[r.Intn(nv)]
		out = append(out, Pt{X: v.X + off(8), Y: v.Y + off(8)}, Pt{X: v.X + off(4), Y: v.Y + off(4)})
	}
	// centroids and midpoints
	for i := 0; i < min(3*nv, 90); i++ {
		a, b, c := verts[r.Intn(nv)], verts[r.Intn(nv)], verts[r.Intn(nv)]
		out = append(out, Pt{X: (a.X + b.X + c.X) / 3, Y: (a.Y + b.Y + c.Y) / 3})
		out = append(out, Pt{X: (a.X+b.X)/2 + off(3), Y: (a.Y+b.Y)/2 + off(3)})
	}
	// near intersections
	e := oracle.NewEdges(true, sets...)
	if e.Len() <= 90 {
		cnt := 0
		for i := 0; i < e.Len() && cnt < 120; i++ {
			for j := i + 1; j < e.Len() && cnt < 120; j++ {
				if x, y, ok := oracle.SegSegIntersectF(e.A[i], e.B[i], e.A[j], e.B[j]); ok {
					ix, iy := int64(math.Round(x)), int64(math.Round(y))
					out = append(out, Pt{X: ix + off(6), Y: iy + off(6)})
					cnt++
				}
			}
		}
	}
	return out
}

// nearPts proposes points near the given vertices (used for output vertices).
func nearPts(r *gen.Rng, sol Paths, maxN int) []Pt {
	var verts []Pt
	for _, p := range sol {
		verts = append(verts, p...)
	}
	if len(verts) == 0 {
		return nil
	}
	var out []Pt
	for i := 0; i < min(len(verts), maxN); i++ {
		v := verts[r.Intn(len(verts))]
		out = append(out, Pt{X: v.X + r.Range(-5, 5), Y: v.Y + r.Range(-5, 5)})
	}
	return out
}

// execBool runs one boolean operation on a fresh engine with a recorder.
func execBool(subj, clp Paths, ct clip.ClipType, fr clip.FillRule, keepEvents bool) (sol Paths, rec *clip.VerifRecorder, ok bool) {
	c := clip.NewClipper64()
	rec = clip.NewVerifRecorder(keepEvents)
	c.VerifRecord(rec)
	c.AddPaths(subj, clip.Subject, false)
	if clp != nil {
		c.AddPaths(clp, clip.Clip, false)
	}
	sol = make(Paths, 0)
	ok = c.Execute(ct, fr, &sol)
	return
}

func pathsEqual(a, b Paths) bool {
	if len(a) != len(b) {
		return false
	}
	for i := range a {
		if len(a[i]) != len(b[i]) {
			return false
		}
		for j := range a[i] {
			if a[i][j] != b[i][j] {
				return false
			}
		}
	}
	return true
}

func fmtPt(p Pt) string { return fmt.Sprintf("(%d,%d)", p.X, p.Y) }

func addCounts(ctx *run.Ctx, rec *clip.VerifRecorder) {
	if rec == nil {
		return
	}
	for k, v := range rec.Counts {
		ctx.Count("hook."+k, v)
	}
}

// BoolInput exposes boolInput to the developer tool.
func BoolInput(id run.CaseID) (Paths, Paths) { return boolInput(id) }
