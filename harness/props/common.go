package props

import (
	"fmt"
	"math"

	clip "github.com/bolom009/go-clipper2"

	"verifharness/gen"
	"verifharness/oracle"
	"verifharness/run"
)

type Pt = clip.Point64
type Path = clip.Path64
type Paths = clip.Paths64

var clipTypes = []clip.ClipType{clip.Intersection, clip.Union, clip.Difference, clip.Xor}
var fillRules = []clip.FillRule{clip.EvenOdd, clip.NonZero, clip.Positive, clip.Negative}

func ctName(ct clip.ClipType) string {
	switch ct {
	case clip.NoClip:
		return "NoClip"
	case clip.Intersection:
		return "Intersection"
	case clip.Union:
		return "Union"
	case clip.Difference:
		return "Difference"
	case clip.Xor:
		return "Xor"
	}
	return fmt.Sprintf("ClipType(%d)", ct)
}

func frName(fr clip.FillRule) string {
	switch fr {
	case clip.EvenOdd:
		return "EvenOdd"
	case clip.NonZero:
		return "NonZero"
	case clip.Positive:
		return "Positive"
	case clip.Negative:
		return "Negative"
	}
	return fmt.Sprintf("FillRule(%d)", fr)
}

// boolInput generates the closed subject/clip sets of a boolean-operation case.
func boolInput(id run.CaseID) (subj, clp Paths) {
	r := gen.ForCase(id.Family, id.Index, id.Stream)
	switch id.Family {
	case "rand-dense":
		subj, clp, _ = gen.RandDense(r)
	case "rand-wide": // fresh: magnitudes 10^6 .. 2^29 (generic position)
		subj, clp, _ = gen.RandWideR(r, []int64{1000000, 1 << 20, 1 << 26, 1 << 29})
	case "rand-mid": // closed pool: +-10^4, where near-coincidences of random edges are still frequent enough to meet engine defects
		subj, clp, _ = gen.RandWideR(r, []int64{10000})
	case "lattice":
		subj, clp, _ = gen.Lattice(r)
	case "rectilinear":
		subj, clp, _ = gen.Rectilinear(r)
	case "rect-soup":
		subj, clp = gen.RectSoup(r)
	case "rect-cavity":
		subj, clp = gen.RectCavity(r)
	case "touching":
		subj, clp = gen.Touching(r)
	case "stacked":
		subj, clp = gen.Stacked(r)
	case "nested", "nested-small", "nested-large":
		R := gen.PickOf(r, 500.0, 20000.0, 3.0e6, 2.0e8)
		if id.Family == "nested-large" { // magnitudes at which two unrelated rings practically never come within the rounding band of each other
			R = gen.PickOf(r, 20000.0, 3.0e6, 2.0e8)
		}
		if id.Family == "nested-small" { // closed pool: +-60..150, where unit differences and near-coincidences are frequent
			R = gen.PickOf(r, 60.0, 150.0)
		}
		minRad := 12.0
		if id.Family != "nested-small" { // no ring smaller than 60 units (tiny rings behave like the small-coordinate pools)
			minRad = 60
		}
		subj, _ = gen.NestedMin(r, 1+r.Intn(3), 6, R, r.Chance(0.7), r.Chance(0.3), minRad)
		if r.Chance(0.6) {
			clp, _ = gen.NestedMin(r, 1+r.Intn(2), 4, R*r.FloatRange(0.5, 1.2), r.Chance(0.7), false, minRad)
			clp = gen.Translate(clp, int64(r.FloatRange(-0.5, 0.5)*R), int64(r.FloatRange(-0.5, 0.5)*R))
		}
	case "degenerate", "degenerate-wide":
		if id.Family == "degenerate" {
			subj, clp = gen.Degenerate(r)
		} else {
			subj, clp = gen.DegenerateR(r, []int64{1000, 1 << 20, 1 << 28})
		}
		if subj == nil {
			subj = Paths{}
		}
	case "near-degenerate":
		subj, clp = gen.NearDegenerate(r)
	case "big-n":
		subj, clp = gen.BigNR(r, 200, 1500, []int64{1000000, 1 << 27})
	case "big-n-mid": // closed pool
		subj, clp = gen.BigNR(r, 200, 1500, []int64{20000})
	case "big-n-xl":
		subj, clp = gen.BigNR(r, 1500, 5000, []int64{1000000, 1 << 27})
	default:
		panic("unknown family " + id.Family)
	}
	return
}

type boolCaseJSON struct {
	Subject Paths `json:"subject"`
	Clip    Paths `json:"clip"`
}

// candidates proposes integer sample points: uniform in the bounding box, near
// vertices, near pairwise edge intersections, centroids of vertex triples and
// midpoints of vertex pairs.
func candidates(r *gen.Rng, nUniform int, sets ...Paths) []Pt {
	minX, minY, maxX, maxY, ok := oracle.Bounds(sets...)
	if !ok {
		return []Pt{{X: 0, Y: 0}, {X: 5, Y: 5}}
	}
	var verts []Pt
	for _, s := range sets {
		for _, p := range s {
			verts = append(verts, p...)
		}
	}
	var out []Pt
	for i := 0; i < nUniform; i++ {
		out = append(out, Pt{X: r.Range(minX-4, maxX+4), Y: r.Range(minY-4, maxY+4)})
	}
	nv := len(verts)
	off := func(k int64) int64 { return r.Range(-k, k) }
	// near vertices
	lim := min(nv, 60)
	for i := 0; i < lim; i++ {
		v := verts[r.Intn(nv)]
		out = append(out, Pt{X: v.X + off(8), Y: v.Y + off(8)}, Pt{X: v.X + off(4), Y: v.Y + off(4)})
	}
	// centroids and midpoints
	for i := 0; i < min(3*nv, 90); i++ {
		a, b, c := verts[r.Intn(nv)], verts[r.Intn(nv)], verts[r.Intn(nv)]
		out = append(out, Pt{X: (a.X + b.X + c.X) / 3, Y: (a.Y + b.Y + c.Y) / 3})
		out = append(out, Pt{X: (a.X+b.X)/2 + off(3), Y: (a.Y+b.Y)/2 + off(3)})
	}
	// near intersections
	e := oracle.NewEdges(true, sets...)
	if e.Len() <= 90 {
		cnt := 0
		for i := 0; i < e.Len() && cnt < 120; i++ {
			for j := i + 1; j < e.Len() && cnt < 120; j++ {
				if x, y, ok := oracle.SegSegIntersectF(e.A[i], e.B[i], e.A[j], e.B[j]); ok {
					ix, iy := int64(math.Round(x)), int64(math.Round(y))
					out = append(out, Pt{X: ix + off(6), Y: iy + off(6)})
					cnt++
				}
			}
		}
	}
	return out
}

// nearPts proposes points near the given vertices (used for output vertices).
func nearPts(r *gen.Rng, sol Paths, maxN int) []Pt {
	var verts []Pt
	for _, p := range sol {
		verts = append(verts, p...)
	}
	if len(verts) == 0 {
		return nil
	}
	var out []Pt
	for i := 0; i < min(len(verts), maxN); i++ {
		v := verts[r.Intn(len(verts))]
		out = append(out, Pt{X: v.X + r.Range(-5, 5), Y: v.Y + r.Range(-5, 5)})
	}
	return out
}

// execBool runs one boolean operation on a fresh engine with a recorder.
// pathByPath picks, from the input alone, the one case in four whose paths are added through AddPath (one call per path)
// instead of one AddPaths call per set; the two ways are documented to be equivalent.
func pathByPath(subj, clp Paths) bool {
	h := int64(len(subj))*31 + int64(len(clp))*17
	for _, ps := range []Paths{subj, clp} {
		for _, p := range ps {
			h = h*131 + int64(len(p))
			if len(p) > 0 {
				h += p[0].X*7 + p[0].Y*3
			}
		}
	}
	return h&3 == 0
}

// addClosed adds closed subject and clip sets to an engine (see pathByPath).
func addClosed(c interface {
	AddPaths(Paths, clip.PathType, bool)
	AddPath(Path, clip.PathType, bool)
}, subj, clp Paths) {
	if !pathByPath(subj, clp) {
		c.AddPaths(subj, clip.Subject, false)
		if clp != nil {
			c.AddPaths(clp, clip.Clip, false)
		}
		return
	}
	for _, p := range subj {
		c.AddPath(p, clip.Subject, false)
	}
	for _, p := range clp {
		c.AddPath(p, clip.Clip, false)
	}
}

func execBool(subj, clp Paths, ct clip.ClipType, fr clip.FillRule, keepEvents bool) (sol Paths, rec *clip.VerifRecorder, ok bool) {
	c := clip.NewClipper64()
	rec = clip.NewVerifRecorder(keepEvents)
	c.VerifRecord(rec)
	addClosed(c, subj, clp)
	sol = make(Paths, 0)
	ok = c.Execute(ct, fr, &sol)
	return
}

func pathsEqual(a, b Paths) bool {
	if len(a) != len(b) {
		return false
	}
	for i := range a {
		if len(a[i]) != len(b[i]) {
			return false
		}
		for j := range a[i] {
			if a[i][j] != b[i][j] {
				return false
			}
		}
	}
	return true
}

func fmtPt(p Pt) string { return fmt.Sprintf("(%d,%d)", p.X, p.Y) }

func addCounts(ctx *run.Ctx, rec *clip.VerifRecorder) {
	if rec == nil {
		return
	}
	for k, v := range rec.Counts {
		ctx.Count("hook."+k, v)
	}
}

// BoolInput exposes boolInput to the developer tool.
func BoolInput(id run.CaseID) (Paths, Paths) { return boolInput(id) }

// ---------------------------------------------------------------------------
// Attribution to the self-intersection repair (the hook C01 asks for).
//
// doSplitOp deliberately discards one loop of a self-intersecting output ring
// (event "split_discard": the triangle ip / splitOp / splitOp.next), and
// checkJoinLeft/Right merge two edges' rings at a join point (events "joinL/R":
// the triangle between the rings' last output points and the join point is no
// longer traced). When that choice is wrong the region error is exactly that
// triangle. A failure is given
// the class "repair-discarded-loop" only if re-executing the operation with
// event recording shows such an event AND the witness lies in the discarded
// triangle (inflated by the rounding band) / the area discrepancy is covered by
// the discarded triangles. Everything else stays unattributed.

type discardTri struct {
	a, b, c [2]float64
	area    float64
}

func discardedTriangles(rec *clip.VerifRecorder) []discardTri {
	var out []discardTri
	if rec == nil {
		return nil
	}
	for _, ev := range rec.Events {
		if ev.Site == "joinL" || ev.Site == "joinR" {
			// an edge join closes/merges the two rings at the join point: what lies between the two rings' last
			// output points and the join point is no longer traced (harmless when those points coincide with it)
			t := discardTri{a: [2]float64{float64(ev.Last1.X), float64(ev.Last1.Y)}, b: [2]float64{float64(ev.Last2.X), float64(ev.Last2.Y)}, c: [2]float64{float64(ev.Pt.X), float64(ev.Pt.Y)}}
			t.area = math.Abs((t.b[0]-t.a[0])*(t.c[1]-t.a[1])-(t.b[1]-t.a[1])*(t.c[0]-t.a[0])) / 2
			// the event must have the documented shape: the join point within 0.5 of the neighbour edge (or exactly on
			// both edges when the current-X form of the test was used) and (e.top, pt, neighbour.top) collinear -
			// exactly, or according to the as-built collinearity model (KF trisign). A join made under any other
			// condition (e.g. a loosened distance test) is NOT attributable.
			okShape := false
			if ev.CheckCurrX {
				okShape = perpDist(ev.Pt, ev.E2Bot, ev.E2Top) <= 0.5*(1+1e-9)
			} else {
				okShape = perpDist(ev.Pt, ev.E1Bot, ev.E1Top) <= 1.5 && perpDist(ev.Pt, ev.E2Bot, ev.E2Top) <= 1.5
			}
			if okShape {
				okShape = exactCol(ev.E1Top, ev.Pt, ev.E2Top) || asBuiltCol(ev.E1Top, ev.Pt, ev.E2Top)
			}
			if t.area > 4 && okShape {
				out = append(out, t)
			}
			continue
		}
		if ev.Site == "selfint_micro" {
			// "adjacent intersections (a micro self-intersection)": the ring is re-routed through a duplicate of the
			// point after next; what changes lies in the hull of prev / op / next / next.next. Attributable only if the
			// first documented precondition (prev-op properly crosses next-next.next) holds exactly.
			prev, sp, nx, nn := ev.E1Bot, ev.Pt, ev.E1Top, ev.E2Top
			if !oracle.SegsCrossProper(prev, sp, nx, nn) {
				continue
			}
			q := [4][2]float64{{float64(prev.X), float64(prev.Y)}, {float64(sp.X), float64(sp.Y)}, {float64(nx.X), float64(nx.Y)}, {float64(nn.X), float64(nn.Y)}}
			for _, ix := range [][3]int{{0, 1, 2}, {1, 2, 3}, {0, 1, 3}, {0, 2, 3}} {
				t := discardTri{a: q[ix[0]], b: q[ix[1]], c: q[ix[2]]}
				t.area = math.Abs((t.b[0]-t.a[0])*(t.c[1]-t.a[1])-(t.b[1]-t.a[1])*(t.c[0]-t.a[0])) / 2
				out = append(out, t)
			}
			continue
		}
		if ev.Site != "split_discard" {
			continue
		}
		// documented discard rule: the split-off triangle is dropped when its area is <= 1 or when it is not
		// larger than the rest and of opposite sign; an event outside that rule is NOT attributable
		if a1, a2 := ev.Area1, ev.Area2; !(math.Abs(a2) <= 1 || (math.Abs(a2) <= math.Abs(a1) && (a2 > 0) != (a1 > 0))) {
			continue
		}
		prev, sp, nx, nn := ev.E1Bot, ev.Pt, ev.E1Top, ev.E2Top
		ix, iy, ok := oracle.SegSegIntersectF(prev, sp, nx, nn)
		if !ok {
			ix, iy = float64(prev.X), float64(prev.Y)
		}
		t := discardTri{a: [2]float64{ix, iy}, b: [2]float64{float64(sp.X), float64(sp.Y)}, c: [2]float64{float64(nx.X), float64(nx.Y)}}
		t.area = math.Abs((t.b[0]-t.a[0])*(t.c[1]-t.a[1])-(t.b[1]-t.a[1])*(t.c[0]-t.a[0])) / 2
		out = append(out, t)
	}
	return out
}

func segDistFF(px, py, ax, ay, bx, by float64) float64 {
	dx, dy := bx-ax, by-ay
	l2 := dx*dx + dy*dy
	if l2 == 0 {
		return math.Hypot(px-ax, py-ay)
	}
	t := ((px-ax)*dx + (py-ay)*dy) / l2
	t = math.Max(0, math.Min(1, t))
	return math.Hypot(px-(ax+t*dx), py-(ay+t*dy))
}

func (t discardTri) containsInflated(p Pt, infl float64) bool {
	px, py := float64(p.X), float64(p.Y)
	s := func(a, b [2]float64) float64 { return (b[0]-a[0])*(py-a[1]) - (b[1]-a[1])*(px-a[0]) }
	d1, d2, d3 := s(t.a, t.b), s(t.b, t.c), s(t.c, t.a)
	if (d1 >= 0 && d2 >= 0 && d3 >= 0) || (d1 <= 0 && d2 <= 0 && d3 <= 0) {
		return true
	}
	return math.Min(segDistFF(px, py, t.a[0], t.a[1], t.b[0], t.b[1]), math.Min(segDistFF(px, py, t.b[0], t.b[1], t.c[0], t.c[1]), segDistFF(px, py, t.c[0], t.c[1], t.a[0], t.a[1]))) <= infl
}

// discardEvents re-executes one boolean operation with event recording.
func discardEvents(subj, clp Paths, ct clip.ClipType, fr clip.FillRule) []discardTri {
	var tris []discardTri
	func() {
		defer func() { recover() }()
		_, rec, _ := execBool(subj, clp, ct, fr, true)
		tris = discardedTriangles(rec)
	}()
	return tris
}

// discardClassPoint returns the class if the witness point lies in a discarded triangle of that execution.
func discardClassPoint(subj, clp Paths, ct clip.ClipType, fr clip.FillRule, p Pt) string {
	for _, t := range discardEvents(subj, clp, ct, fr) {
		if t.containsInflated(p, 2.5) {
			return "repair-discarded-loop"
		}
	}
	return ""
}

// discardEventsAdds is discardEvents for an arbitrary sequence of AddPaths calls.
func discardEventsAdds(adds []*addOp, ct clip.ClipType, fr clip.FillRule) []discardTri {
	var tris []discardTri
	func() {
		defer func() { recover() }()
		c := clip.NewClipper64()
		rec := clip.NewVerifRecorder(true)
		c.VerifRecord(rec)
		for _, a := range adds {
			a.addTo(c)
		}
		sol := Paths{}
		c.Execute(ct, fr, &sol)
		tris = discardedTriangles(rec)
	}()
	return tris
}

// anchorShift picks a notable point of the given path sets - a vertex or the rounded intersection of two edges - and
// returns the translation that moves it onto the origin (in one case in five only onto one axis, nearly). Used by the
// fresh families of several properties for a fraction of their cases: zero-valued coordinates, and zero values used
// as "unset", live there and random positions practically never produce them.
func anchorShift(r *gen.Rng, closedSets []Paths, openSets []Paths) (dx, dy int64) {
	var pts []Pt
	var segs [][2]Pt
	add := func(ps Paths, closed bool) {
		for _, p := range ps {
			pts = append(pts, p...)
			for i := 0; i+1 < len(p); i++ {
				segs = append(segs, [2]Pt{p[i], p[i+1]})
			}
			if closed && len(p) > 2 {
				segs = append(segs, [2]Pt{p[len(p)-1], p[0]})
			}
		}
	}
	for _, s := range closedSets {
		add(s, true)
	}
	for _, s := range openSets {
		add(s, false)
	}
	if len(pts) == 0 {
		return 0, 0
	}
	a := pts[r.Intn(len(pts))]
	if len(segs) > 1 && len(segs) <= 400 && r.Chance(0.6) {
		var xs []Pt
		for i := 0; i < len(segs) && len(xs) < 100; i++ {
			for j := i + 1; j < len(segs); j++ {
				if segs[i][0] == segs[j][0] || segs[i][0] == segs[j][1] || segs[i][1] == segs[j][0] || segs[i][1] == segs[j][1] {
					continue
				}
				if x, y, ok := oracle.SegSegIntersectF(segs[i][0], segs[i][1], segs[j][0], segs[j][1]); ok {
					xs = append(xs, Pt{X: int64(math.Round(x)), Y: int64(math.Round(y))})
				}
			}
		}
		if len(xs) > 0 {
			a = xs[r.Intn(len(xs))]
		}
	}
	dx, dy = -a.X, -a.Y
	switch r.Intn(5) {
	case 0:
		dx += r.Range(-3, 3)
	case 1:
		dy += r.Range(-3, 3)
	}
	return
}
