package props

import (
	"fmt"
	"math"

	clip "github.com/bolom009/go-clipper2"

	"verifharness/gen"
	"verifharness/oracle"
	"verifharness/run"
)

// C19 — the four boolean operations are mutually consistent.

var c19Specs = []famSpec{
	{Family: "rand-dense", Pool: 200000, PoolQ: 10000},
	{Family: "lattice", Pool: 100000, PoolQ: 5000},
	{Family: "rand-mid", Pool: 60000, PoolQ: 3000},
	{Family: "big-n-mid", Pool: 3000, PoolQ: 60},
	{Family: "rand-wide", FreshQ: 4000, FreshT: 200000},
	{Family: "rect-soup", Pool: 40000, PoolQ: 2000},
	{Family: "rect-cavity", Pool: 40000, PoolQ: 2000},
	{Family: "touching", FreshQ: 2000, FreshT: 40000},
	{Family: "stacked", FreshQ: 1000, FreshT: 20000},
	{Family: "nested-small", Pool: 30000, PoolQ: 1500},
	{Family: "nested", FreshQ: 1500, FreshT: 50000},
	{Family: "rectilinear", FreshQ: 1500, FreshT: 50000},
	{Family: "big-n", FreshQ: 300, FreshT: 8000},
	{Family: "big-n-xl", FreshQ: 40, FreshT: 1500},
}

func init() {
	register(&run.Prop{
		ID: "C19",
		Rule: "cases as C01 plus large path sets (200-5000 vertices); per case and fill rule the library computes Union, Intersection, Difference(S,C), Difference(C,S), Xor and the single-set unions S*, C*; " +
			"checked: |area(U)+area(I)-area(S*)-area(C*)|, |area(X)-(area(U)-area(I))|, |area(D)+area(I)+area(D')-area(U)| <= 2*L (L = total input edge length, exact output areas), " +
			"pointwise identities X=U\\I, D=S*\\I, {D,I,D'} disjoint and covering U at points > 2 units from every input edge, UnionPaths64(S) bit-identical to the union with nil/empty clip. " +
			"Non-trivial = the Union run processed >= 3 intersections and I is non-empty; distinct by input digest.",
		Assumptions: []string{"exact areas by 128-bit shoelace of the outputs; exact winding at sample points"},
		Floor:       300,
		Cases:       func(tier string, seed uint64) []run.CaseID { return buildCases(c19Specs, tier, seed) },
		RunCase:     c19Run,
	})
}

func edgeLen(sets ...Paths) float64 {
	L := 0.0
	for _, s := range sets {
		oracle.EdgeIter(s, true, func(a, b Pt) {
			L += math.Hypot(float64(b.X-a.X), float64(b.Y-a.Y))
		})
	}
	return L
}

func c19Run(ctx *run.Ctx, id run.CaseID) {
	subj, clp := boolInput(id)
	if clp == nil {
		clp = Paths{}
	}
	in := boolCaseJSON{subj, clp}
	digest := run.Digest(in)
	if gen.MaxAbs(subj, clp) > gen.MaxC {
		return
	}
	r := gen.ForCase(id.Family+"#c19", id.Index, id.Stream)
	edges := oracle.NewEdges(true, subj, clp)
	nUni := 50
	if edges.Len() > 400 {
		nUni = 300
	}
	var elig []Pt
	for _, p := range candidates(r, nUni, subj, clp) {
		if edges.FartherThan(p, 2) {
			elig = append(elig, p)
		}
	}
	ctx.Count("eligible_points", int64(len(elig)))
	L := edgeLen(subj, clp)
	frs := fillRules
	if edges.Len() > 400 {
		frs = []clip.FillRule{fillRules[r.Intn(4)], fillRules[r.Intn(4)]}
	}
	nontrivial := false
	for _, fr := range frs {
		var U, I, D, D2, X, S1, C1 Paths
		var rec *clip.VerifRecorder
		sub := frName(fr)
		if !ctx.Guard(digest, sub, in, func() {
			U, rec, _ = execBool(subj, clp, clip.Union, fr, false)
			if pathByPath(subj, clp) { // one case in four: every operation on an engine fed through AddPath, path by path
				I, _, _ = execBool(subj, clp, clip.Intersection, fr, false)
				D, _, _ = execBool(subj, clp, clip.Difference, fr, false)
				X, _, _ = execBool(subj, clp, clip.Xor, fr, false)
			} else {
				I = clip.BooleanOpPaths64(clip.Intersection, subj, clp, fr)
				D = clip.BooleanOpPaths64(clip.Difference, subj, clp, fr)
				X = clip.BooleanOpPaths64(clip.Xor, subj, clp, fr)
			}
			D2 = clip.BooleanOpPaths64(clip.Difference, clp, subj, fr)
			S1 = clip.UnionPaths64(subj, fr)
			C1 = clip.UnionPaths64(clp, fr)
		}) {
			continue
		}
		ctx.Eval(7)
		if rec.Counts["intersect"] >= 3 && len(I) > 0 {
			nontrivial = true
		}
		ar := func(p Paths) float64 { return oracle.Area2Paths(p).Float() / 2 }
		aU, aI, aD, aD2, aX, aS, aC := ar(U), ar(I), ar(D), ar(D2), ar(X), ar(S1), ar(C1)
		bound := 2*L + 1
		ctx.Count("area_identities", 3)
		// attribution: total area of the loops the self-intersection repair discarded in the seven executions
		var tris []discardTri
		gotTris := false
		discarded := func() float64 {
			if !gotTris {
				gotTris = true
				for _, ct := range clipTypes {
					tris = append(tris, discardEvents(subj, clp, ct, fr)...)
				}
				tris = append(tris, discardEvents(clp, subj, clip.Difference, fr)...)
				tris = append(tris, discardEvents(subj, nil, clip.Union, fr)...)
				tris = append(tris, discardEvents(clp, nil, clip.Union, fr)...)
			}
			a := 0.0
			for _, t := range tris {
				a += t.area
			}
			return a
		}
		areaClass := func(d float64) string {
			if discarded() > 0 && d <= bound+discarded()*1.0001 {
				return "repair-discarded-loop"
			}
			return ""
		}
		if d := math.Abs(aU + aI - aS - aC); d > bound {
			ctx.Fail(digest, "area/U+I=S+C/"+sub, areaClass(d), fmt.Sprintf("|area(U)+area(I)-area(S)-area(C)| = %.1f > 2*L = %.1f (U=%.1f I=%.1f S=%.1f C=%.1f)", d, bound, aU, aI, aS, aC), in)
		}
		if d := math.Abs(aX - (aU - aI)); d > bound {
			ctx.Fail(digest, "area/X=U-I/"+sub, areaClass(d), fmt.Sprintf("|area(X)-(area(U)-area(I))| = %.1f > %.1f (X=%.1f U=%.1f I=%.1f)", d, bound, aX, aU, aI), in)
		}
		if d := math.Abs(aD + aI + aD2 - aU); d > bound {
			ctx.Fail(digest, "area/D+I+D'=U/"+sub, areaClass(d), fmt.Sprintf("|area(D)+area(I)+area(D')-area(U)| = %.1f > %.1f (D=%.1f I=%.1f D'=%.1f U=%.1f)", d, bound, aD, aI, aD2, aU), in)
		}
		for _, p := range elig {
			in1 := func(s Paths) bool { w, on := oracle.Winding(s, p); return w != 0 || on }
			u, i, d, d2, x, s1 := in1(U), in1(I), in1(D), in1(D2), in1(X), in1(S1)
			ctx.Count("points_compared", 1)
			var bad string
			switch {
			case x != (u && !i):
				bad = "X=U\\I"
			case d != (s1 && !i):
				bad = "D=S\\I"
			case (d && i) || (d && d2) || (i && d2):
				bad = "D,I,D' disjoint"
			case u != (d || i || d2):
				bad = "D+I+D'=U"
			}
			if bad != "" {
				class := ""
				discarded()
				for _, t := range tris {
					if t.containsInflated(p, 2.5) {
						class = "repair-discarded-loop"
					}
				}
				ctx.Fail(digest, "pointwise/"+bad+"/"+sub, class, fmt.Sprintf("identity %s fails at %s: U=%v I=%v D=%v D'=%v X=%v S*=%v", bad, fmtPt(p), u, i, d, d2, x, s1), in)
				break
			}
		}
		// the same identities through the four float (D) wrappers at precision 3 on the input divided by 1000
		if fr == frs[0] && gen.MaxAbs(subj, clp) <= 1<<24 && len(clp) > 0 {
			sD, cD := toD(subj, 1000), toD(clp, 1000)
			back := func(ps clip.PathsD) Paths {
				out := make(Paths, len(ps))
				for i, p := range ps {
					for _, v := range p {
						out[i] = append(out[i], Pt{X: int64(math.Round(v.X * 1000)), Y: int64(math.Round(v.Y * 1000))})
					}
				}
				return out
			}
			var uD, iD, dD, xD, s1D clip.PathsD
			if ctx.Guard(digest, "D-wrappers/"+sub, in, func() {
				uD = clip.UnionWithClipPathsD(sD, cD, fr, 3)
				iD = clip.IntersectWithClipPathsD(sD, cD, fr, 3)
				dD = clip.DifferenceWithClipPathsD(sD, cD, fr, 3)
				xD = clip.XorWithClipPathsD(sD, cD, fr, 3)
				s1D = clip.UnionPathsD(sD, fr, 3)
			}) {
				ctx.Eval(5)
				ctx.Count("area_identities_D", 2)
				bU, bI, bD, bX, bS := ar(back(uD)), ar(back(iD)), ar(back(dD)), ar(back(xD)), ar(back(s1D))
				if d := math.Abs(bX - (bU - bI)); d > bound {
					ctx.Fail(digest, "areaD/X=U-I/"+sub, areaClass(d), fmt.Sprintf("D wrappers, precision 3: |area(X)-(area(U)-area(I))| = %.1f > %.1f integer units (X=%.1f U=%.1f I=%.1f)", d, bound, bX, bU, bI), in)
				}
				if d := math.Abs(bD + bI - bS); d > bound {
					ctx.Fail(digest, "areaD/D+I=S/"+sub, areaClass(d), fmt.Sprintf("D wrappers, precision 3: |area(D)+area(I)-area(S)| = %.1f > %.1f integer units (D=%.1f I=%.1f S=%.1f)", d, bound, bD, bI, bS), in)
				}
			}
		}
		// single-set union spelled three ways
		var a, b, c Paths
		if ctx.Guard(digest, "single-set/"+sub, in, func() {
			a = clip.UnionPaths64(subj, fr)
			b = clip.UnionWithClipPaths64(subj, Paths{}, fr)
			c = clip.BooleanOpPaths64(clip.Union, subj, nil, fr)
		}) {
			ctx.Eval(3)
			if !pathsEqual(a, b) || !pathsEqual(a, c) {
				ctx.Fail(digest, "single-set/"+sub, "", fmt.Sprintf("UnionPaths64(S)=%v, union with empty clip=%v, with nil clip=%v", a, b, c), in)
			}
		}
	}
	if nontrivial {
		ctx.Nontrivial(digest)
		if ctx.WantSample() {
			ctx.Sample(map[string]any{"case": id.String(), "subject_paths": len(subj), "clip_paths": len(clp), "vertices": gen.NumVerts(subj, clp), "first_subject_path_head": head(subj)})
		}
	}
}

func head(ps Paths) Path {
	if len(ps) == 0 {
		return nil
	}
	p := ps[0]
	if len(p) > 8 {
		p = p[:8]
	}
	return p
}
