package props

import (
	"fmt"

	clip "github.com/bolom009/go-clipper2"

	"verifharness/gen"
	"verifharness/oracle"
	"verifharness/run"
)

// C02 — closed solutions are a canonical, non-overlapping polygon set.

var c02Specs = []famSpec{
	{Family: "rand-dense", Pool: 200000, PoolQ: 12000},
	{Family: "near-degenerate", Pool: 60000, PoolQ: 4000},
	{Family: "lattice", Pool: 100000, PoolQ: 8000},
	{Family: "rand-mid", Pool: 60000, PoolQ: 3000},
	{Family: "degenerate", Pool: 50000, PoolQ: 2500},
	{Family: "rand-wide", FreshQ: 4000, FreshT: 200000},
	{Family: "rectilinear", FreshQ: 3000, FreshT: 100000},
	{Family: "rect-soup", Pool: 60000, PoolQ: 3000},
	{Family: "rect-cavity", Pool: 60000, PoolQ: 3000},
	{Family: "touching", Pool: 60000, PoolQ: 3000},
	{Family: "stacked", FreshQ: 1500, FreshT: 30000},
	{Family: "nested-small", Pool: 30000, PoolQ: 1500},
	{Family: "nested", FreshQ: 1500, FreshT: 50000},
	{Family: "degenerate-wide", FreshQ: 1500, FreshT: 50000},
	{Family: "big-n", FreshQ: 40, FreshT: 1500},
}

func init() {
	register(&run.Prop{
		ID: "C02",
		Rule: "cases as C01; every case executes all 16 (clip type, fill rule) pairs, each with a (preserveCollinear, reverseSolution) setting drawn per execution through the verif option setter. " +
			"Checked per solution: >=3 vertices per path, no equal consecutive vertices cyclically, total solution winding in {0,1} ({0,-1} reversed) at sample points > 2 units from every solution edge, " +
			"signed area sign, and re-union of the solution (library) equal to the solution at those points. Non-trivial = solution had >= 2 paths or >= 6 vertices and >= 1 eligible point; distinct by input digest.",
		Assumptions: []string{
			"oracle: exact winding (128-bit); eligibility by float distance with conservative margin",
			"the reverse/preserve-collinear options are reached through the verif-tagged setter VerifSetOptions",
		},
		Floor:   500,
		Cases:   func(tier string, seed uint64) []run.CaseID { return buildCases(c02Specs, tier, seed) },
		RunCase: c02Run,
	})
}

// structuralDefects returns a description of the first structural defect of a closed solution.
func structuralDefects(sol Paths) string {
	for i, p := range sol {
		if len(p) < 3 {
			return fmt.Sprintf("path %d has %d vertices: %v", i, len(p), p)
		}
		for j := range p {
			if p[j] == p[(j+1)%len(p)] {
				return fmt.Sprintf("path %d has equal consecutive vertices at %d (cyclic): %v", i, j, p)
			}
		}
	}
	return ""
}

func c02Run(ctx *run.Ctx, id run.CaseID) {
	subj, clp := boolInput(id)
	in := boolCaseJSON{subj, clp}
	digest := run.Digest(in)
	if gen.MaxAbs(subj, clp) > gen.MaxC {
		return
	}
	r := gen.ForCase(id.Family+"#c02", id.Index, id.Stream)
	base := candidates(r, 40, subj, clp)
	nontrivial := false
	for _, ct := range clipTypes {
		for _, fr := range fillRules {
			pc, rev := r.Bool(), r.Bool()
			sub := fmt.Sprintf("%s/%s/pc=%v/rev=%v", ctName(ct), frName(fr), pc, rev)
			var sol Paths
			var ok bool
			if !ctx.Guard(digest, sub, in, func() {
				c := clip.NewClipper64()
				c.VerifSetOptions(pc, rev)
				addClosed(c, subj, clp)
				sol = make(Paths, 0)
				ok = c.Execute(ct, fr, &sol)
			}) {
				continue
			}
			ctx.Eval(1)
			if !ok {
				ctx.Fail(digest, "execute-false/"+sub, "", "Execute returned false", in)
				continue
			}
			if d := structuralDefects(sol); d != "" {
				ctx.Fail(digest, "structure/"+sub, "", d, in)
			}
			ctx.Count("solution_paths", int64(len(sol)))
			// winding in {0, s}
			s := 1
			if rev {
				s = -1
			}
			sedges := oracle.NewEdges(true, sol)
			pts := append(append([]Pt{}, base...), nearPts(r, sol, 30)...)
			var elig []Pt
			for _, p := range pts {
				if sedges.FartherThan(p, 2) {
					elig = append(elig, p)
				}
			}
			ctx.Count("eligible_points", int64(len(elig)))
			if len(elig) > 0 && (len(sol) >= 2 || gen.NumVerts(sol) >= 6) {
				nontrivial = true
			}
			failed := false
			for _, p := range elig {
				w, _ := oracle.Winding(sol, p)
				if w != 0 && w != s {
					ctx.Fail(digest, "winding/"+sub, "", fmt.Sprintf("solution winding %d at %s (allowed 0 or %d); distance to nearest solution edge %.3f; solution=%v", w, fmtPt(p), s, sedges.MinDist(p), sol), in)
					failed = true
					break
				}
			}
			if failed {
				continue
			}
			// re-union changes nothing outside the band
			var again Paths
			fr2 := clip.Positive
			if rev {
				fr2 = clip.Negative
			}
			if ctx.Guard(digest, "reunion/"+sub, in, func() { again = clip.UnionPaths64(sol, fr2) }) {
				ctx.Eval(1)
				aedges := oracle.NewEdges(true, again)
				for _, p := range elig {
					if !aedges.FartherThan(p, 2) {
						continue
					}
					w1, _ := oracle.Winding(sol, p)
					w2, _ := oracle.Winding(again, p)
					ctx.Count("points_compared", 1)
					if (w1 != 0) != (w2 != 0) {
						ctx.Fail(digest, "reunion/"+sub, "", fmt.Sprintf("Union(solution) differs from solution at %s: winding %d vs %d; solution=%v reunion=%v", fmtPt(p), w1, w2, sol, again), in)
						break
					}
				}
			}
		}
	}
	// a solution the caller still holds stays canonical while the engine that produced it goes on working:
	// two executions on one engine into two different variables, then the first result is examined again
	{
		ct1, ct2 := clipTypes[r.Intn(4)], clipTypes[r.Intn(4)]
		fr := fillRules[r.Intn(4)]
		sub := fmt.Sprintf("kept/%s-then-%s/%s", ctName(ct1), ctName(ct2), frName(fr))
		ctx.Guard(digest, sub, in, func() {
			c := clip.NewClipper64()
			addClosed(c, subj, clp)
			first, second := Paths{}, Paths{}
			c.Execute(ct1, fr, &first)
			before := run.Digest(first)
			c.Execute(ct2, fr, &second)
			t := clip.NewPolyTree64()
			od := clip.PathsD{}
			c.ExecutePolyTree64(ct1, fr, t, &od)
			ctx.Eval(3)
			if run.Digest(first) != before {
				ctx.Fail(digest, sub, "", fmt.Sprintf("the solution of the first execution changed while the engine executed again (structural defects now: %q): %v", structuralDefects(first), first), in)
			}
		})
	}
	if nontrivial {
		ctx.Nontrivial(digest)
		if ctx.WantSample() {
			ctx.Sample(map[string]any{"case": id.String(), "subject": subj, "clip": clp})
		}
	}
}
