package props

import (
	"fmt"

	clip "github.com/bolom009/go-clipper2"

	"verifharness/gen"
	"verifharness/oracle"
	"verifharness/run"
)

// C12 — an engine's answer depends only on the paths added, not on its history.

var c12Specs = []famSpec{
	{Family: "hist-64", FreshQ: 6000, FreshT: 300000},
	{Family: "hist-d", FreshQ: 2500, FreshT: 120000},
	{Family: "hist-offset", FreshQ: 2500, FreshT: 120000},
	{Family: "hist-rect", FreshQ: 1500, FreshT: 60000},
	{Family: "immut", FreshQ: 2500, FreshT: 120000},
}

func init() {
	register(&run.Prop{
		ID: "C12",
		Rule: "case = a random sequential history (3-12 operations) on ONE object: AddPaths or path-by-path AddPath (subject/clip/open, occasionally the same slice as subject and clip), Execute, ExecuteOC, ExecutePolyTree with random clip types / fill rules and solution arguments pre-filled with old data or reused across calls; object kinds: Clipper64, ClipperD, ClipperOffset (Execute64 repeated with different deltas, AddPaths in between), RectClip64/RectClipLines64. " +
			"Executable model: state = list of AddPaths calls so far; every Execute is compared bit for bit with a fresh object replaying that list (tree form: same node polygons and parents); a one-call concatenation of the same paths must give the same region; the verif scratch accessor must report empty scan-line/out-record/horizontal/intersection lists and no active edges after every Execute; " +
			"immut: deep copies of every caller-supplied slice are compared before/after ~40 library calls. Non-trivial = history with >= 2 executions of different kinds and a non-empty result; distinct by history digest.",
		Assumptions: []string{"the fresh-object replay is the reference (differential); correctness of the fresh result itself is C01's business"},
		Floor:       500,
		Cases:       func(tier string, seed uint64) []run.CaseID { return buildCases(c12Specs, tier, seed) },
		RunCase:     c12Run,
	})
}

type addOp struct {
	Paths  Paths `json:"paths"`
	Type   int   `json:"type"`
	Open   bool  `json:"open"`
	Single bool  `json:"pathByPath,omitempty"` // added through AddPath, one call per path
}

// addTo adds the paths the way the history did: one AddPaths call, or one AddPath call per path.
func (a *addOp) addTo(c interface {
	AddPaths(Paths, clip.PathType, bool)
	AddPath(Path, clip.PathType, bool)
}) {
	if !a.Single {
		c.AddPaths(a.Paths, clip.PathType(a.Type), a.Open)
		return
	}
	for _, p := range a.Paths {
		c.AddPath(p, clip.PathType(a.Type), a.Open)
	}
}

type histOp struct {
	Kind string `json:"kind"` // add | exec | execOC | tree
	Add  *addOp `json:"add,omitempty"`
	CT   int    `json:"clipType,omitempty"`
	FR   int    `json:"fillRule,omitempty"`
	Pre  bool   `json:"prefilledSolution,omitempty"`
}

func smallPaths(r *gen.Rng) Paths {
	switch r.Intn(4) {
	case 0:
		a, _, _ := gen.Lattice(r)
		return a
	case 1:
		a, _, _ := gen.Rectilinear(r)
		return a
	case 2:
		a, _, _ := gen.RandWide(r)
		return a
	default:
		a, _, _ := gen.RandDense(r)
		return a
	}
}

func genHistory(r *gen.Rng) []histOp {
	var h []histOp
	n := 3 + r.Intn(10)
	shared := smallPaths(r)
	h = append(h, histOp{Kind: "add", Add: &addOp{Paths: smallPaths(r), Type: 0}})
	for len(h) < n {
		switch r.Intn(6) {
		case 0, 1:
			a := &addOp{Paths: smallPaths(r), Type: r.Intn(2)}
			if r.Chance(0.15) {
				a.Paths = shared // the same slice added twice / as subject and clip
			}
			if r.Chance(0.2) {
				a.Paths = gen.Polylines(r, 1+r.Intn(2), 100, a.Paths)
				a.Open, a.Type = true, 0
			}
			a.Single = r.Chance(0.3)
			h = append(h, histOp{Kind: "add", Add: a})
		case 2:
			h = append(h, histOp{Kind: "exec", CT: 1 + r.Intn(4), FR: r.Intn(4), Pre: r.Bool()})
		case 3:
			h = append(h, histOp{Kind: "execOC", CT: 1 + r.Intn(4), FR: r.Intn(4), Pre: r.Bool()})
		default:
			h = append(h, histOp{Kind: "tree", CT: 1 + r.Intn(4), FR: r.Intn(4), Pre: r.Bool()})
		}
	}
	h = append(h, histOp{Kind: "exec", CT: 1 + r.Intn(4), FR: r.Intn(4), Pre: true})
	return h
}

func junkPaths() Paths {
	return Paths{{{X: 777, Y: 777}, {X: 778, Y: 779}, {X: 770, Y: 790}}, {{X: 1, Y: 2}}}
}

func scratchDirty(s clip.VerifScratchState) string {
	if s.Scanlines != 0 || s.Outrecs != 0 || s.HorzSegs != 0 || s.HorzJoins != 0 || s.Intersects != 0 || !s.ActivesNil {
		return fmt.Sprintf("%+v", s)
	}
	return ""
}

func treeSig(t *clip.PolyPathBase) []treeNode { return flattenTree(t) }

// treeDigest is a digest of the nesting structure and polygons of a tree result.
func treeDigest(t *clip.PolyPathBase) string {
	var parts []string
	for _, n := range flattenTree(t) {
		parts = append(parts, fmt.Sprintf("%d:%v", n.parent, n.poly))
	}
	return run.Digest(parts)
}

func sameTree(a, b []treeNode) bool {
	if len(a) != len(b) {
		return false
	}
	for i := range a {
		if a[i].parent != b[i].parent || !pathEq(a[i].poly, b[i].poly) {
			return false
		}
	}
	return true
}

func c12Run(ctx *run.Ctx, id run.CaseID) {
	r := gen.ForCase(id.Family, id.Index, id.Stream)
	switch id.Family {
	case "hist-64":
		c12Hist64(ctx, id, r)
	case "hist-d":
		c12HistD(ctx, id, r)
	case "hist-offset":
		c12Offset(ctx, id, r)
	case "hist-rect":
		c12Rect(ctx, id, r)
	case "immut":
		c12Immut(ctx, id, r)
	}
}

func c12Hist64(ctx *run.Ctx, id run.CaseID, r *gen.Rng) {
	h := genHistory(r)
	digest := run.Digest(h)
	var adds []*addOp
	execKinds := map[string]bool{}
	nonEmpty := false
	ctx.Guard(digest, "history", h, func() {
		c := clip.NewClipper64()
		sol, solO := junkPaths(), junkPaths()
		// results the caller still holds (their variables are not handed to the engine again) must stay what they were
		type keptRes struct {
			step  int
			paths []Paths
			tree  *clip.PolyPathBase
			dig   string
		}
		var kept []keptRes
		keep := func(step int, tree *clip.PolyPathBase, ps ...Paths) {
			k := keptRes{step: step, paths: ps, tree: tree}
			if tree != nil {
				k.dig = treeDigest(tree)
			} else {
				k.dig = run.Digest(ps)
			}
			kept = append(kept, k)
		}
		produced := false
		defer func() {
			for _, k := range kept {
				now := ""
				if k.tree != nil {
					now = treeDigest(k.tree)
				} else {
					now = run.Digest(k.paths)
				}
				ctx.Count("kept_results_rechecked", 1)
				if now != k.dig {
					ctx.Fail(digest, "kept-result-changed", "", fmt.Sprintf("the result returned at step %d was changed by later operations on the same engine", k.step), h)
					break
				}
			}
		}()
		for step, op := range h {
			fresh := func() *clip.VerifScratchState { return nil }
			_ = fresh
			replay := func() interface {
				Execute(clip.ClipType, clip.FillRule, *Paths) bool
				ExecuteOC(clip.ClipType, clip.FillRule, *Paths, *Paths) bool
				ExecutePolyTree64(clip.ClipType, clip.FillRule, *clip.PolyTree64, *clip.PathsD) bool
			} {
				f := clip.NewClipper64()
				for _, a := range adds {
					a.addTo(f)
				}
				return f
			}
			where := fmt.Sprintf("step %d (%s ct=%d fr=%d)", step, op.Kind, op.CT, op.FR)
			ct, fr := clip.ClipType(op.CT), clip.FillRule(op.FR)
			switch op.Kind {
			case "add":
				op.Add.addTo(c)
				adds = append(adds, op.Add)
				continue
			case "exec":
				if !op.Pre {
					if produced {
						keep(step-1, nil, sol) // (solO stays the caller's variable and may be handed in again)
					}
					sol = Paths{}
				}
				produced = true
				ok := c.Execute(ct, fr, &sol)
				want := Paths{}
				okW := replay().Execute(ct, fr, &want)
				ctx.Eval(2)
				if ok != okW || !pathsEqual(sol, want) {
					ctx.Fail(digest, "exec", "", fmt.Sprintf("%s: Execute on the used engine gives %v (ok=%v), a fresh engine with the same paths gives %v (ok=%v)", where, sol, ok, want, okW), h)
				}
				nonEmpty = nonEmpty || len(want) > 0
			case "execOC":
				if !op.Pre {
					if produced {
						keep(step-1, nil, sol, solO)
					}
					sol, solO = Paths{}, Paths{}
				}
				produced = true
				ok := c.ExecuteOC(ct, fr, &sol, &solO)
				want, wantO := Paths{}, Paths{}
				okW := replay().ExecuteOC(ct, fr, &want, &wantO)
				ctx.Eval(2)
				if ok != okW || !pathsEqual(sol, want) || !pathsEqual(solO, wantO) {
					ctx.Fail(digest, "execOC", "", fmt.Sprintf("%s: ExecuteOC on the used engine gives closed=%v open=%v, a fresh engine gives closed=%v open=%v", where, sol, solO, want, wantO), h)
				}
				nonEmpty = nonEmpty || len(want) > 0
			case "tree":
				t := clip.NewPolyTree64()
				if op.Pre {
					t.AddChild(Path{{X: 9, Y: 9}, {X: 10, Y: 9}, {X: 9, Y: 10}})
				}
				od := clip.PathsD{{{X: 5, Y: 5}}}
				ok := c.ExecutePolyTree64(ct, fr, t, &od)
				tw := clip.NewPolyTree64()
				odw := clip.PathsD{}
				okW := replay().ExecutePolyTree64(ct, fr, tw, &odw)
				ctx.Eval(2)
				keep(step, t.PolyPathBase)
				if run.Digest(od) != run.Digest(odw) {
					ctx.Fail(digest, "tree-open", "", fmt.Sprintf("%s: ExecutePolyTree64 on the used engine (pre-filled open argument) returns the open solution %v, a fresh engine %v", where, od, odw), h)
				}
				if ok != okW || !sameTree(treeSig(t.PolyPathBase), treeSig(tw.PolyPathBase)) {
					ctx.Fail(digest, "tree", "", fmt.Sprintf("%s: ExecutePolyTree64 on the used engine differs from a fresh engine (%d vs %d nodes)", where, len(treeSig(t.PolyPathBase)), len(treeSig(tw.PolyPathBase))), h)
				}
			}
			execKinds[op.Kind] = true
			if d := scratchDirty(c.VerifScratch()); d != "" {
				ctx.Fail(digest, "scratch", "", fmt.Sprintf("%s: scratch state not empty after the execution: %s", where, d), h)
			}
		}
		// grouping independence: all closed paths of one type in ONE call -> same region
		var subj, clp, open Paths
		for _, a := range adds {
			switch {
			case a.Open:
				open = append(open, a.Paths...)
			case a.Type == 0:
				subj = append(subj, a.Paths...)
			default:
				clp = append(clp, a.Paths...)
			}
		}
		if len(open) == 0 && gen.MaxAbs(subj, clp) <= gen.MaxC {
			ct, fr := clip.ClipType(1+r.Intn(4)), clip.FillRule(r.Intn(4))
			a := Paths{}
			c.Execute(ct, fr, &a)
			one := clip.NewClipper64()
			one.AddPaths(clp, clip.Clip, false) // also another order: clip first
			one.AddPaths(subj, clip.Subject, false)
			b := Paths{}
			one.Execute(ct, fr, &b)
			ctx.Eval(2)
			edges := oracle.NewEdges(true, subj, clp)
			for _, p := range candidates(r, 30, subj, clp) {
				// 6 units, not 2: which of two coincident / nearly coincident edges wins a tie depends on the insertion order,
				// and the sweep's listed in-band residuals (2-5 units, C01) then show up as differences between groupings;
				// stale state or lost paths - what this sub-check is for - produce differences far from every edge
				if !edges.FartherThan(p, 6) {
					continue
				}
				w1, o1 := oracle.Winding(a, p)
				w2, o2 := oracle.Winding(b, p)
				ctx.Count("points_compared", 1)
				if (w1 != 0 || o1) != (w2 != 0 || o2) {
					// an order-dependent choice of the sweep's join / self-intersection repair (listed finding) explains a
					// difference only if the witness lies in such an event's triangle in one of the two executions
					class := ""
					one := []*addOp{{Paths: clp, Type: 1}, {Paths: subj, Type: 0}}
					for _, t := range append(discardEventsAdds(adds, ct, fr), discardEventsAdds(one, ct, fr)...) {
						if t.containsInflated(p, 2.5) {
							class = "repair-discarded-loop"
						}
					}
					ctx.Fail(digest, "grouping", class, fmt.Sprintf("region differs at %s between the history's AddPaths grouping and one AddPaths call per type (clip first): %v vs %v", fmtPt(p), a, b), h)
					break
				}
			}
		}
	})
	if len(execKinds) >= 2 && nonEmpty {
		ctx.Nontrivial(digest)
		if ctx.WantSample() {
			ctx.Sample(map[string]any{"case": id.String(), "history": h})
		}
	}
}

func c12HistD(ctx *run.Ctx, id run.CaseID, r *gen.Rng) {
	h := genHistory(r)
	digest := run.Digest(h)
	prec := gen.PickOf(r, 1, 2, 3)
	div := 10.0
	var adds []*addOp
	execs := 0
	nonEmpty := false
	ctx.Guard(digest, "historyD", h, func() {
		c := clip.NewClipperD(prec)
		junk := func() clip.PathsD { return clip.PathsD{{{X: 7.5, Y: 7.5}, {X: 8, Y: 9}, {X: 1, Y: 3}}} }
		eqD := func(a, b clip.PathsD) bool {
			if len(a) != len(b) {
				return false
			}
			for i := range a {
				if len(a[i]) != len(b[i]) {
					return false
				}
				for j := range a[i] {
					if a[i][j] != b[i][j] {
						return false
					}
				}
			}
			return true
		}
		sol, solO := junk(), junk()
		type keptD struct {
			step int
			a, b clip.PathsD
			dig  string
		}
		var kept []keptD
		produced := false
		defer func() {
			for _, k := range kept {
				ctx.Count("kept_results_rechecked", 1)
				if run.Digest([]any{k.a, k.b}) != k.dig {
					ctx.Fail(digest, "kept-result-changedD", "", fmt.Sprintf("the result returned at step %d was changed by later operations on the same engine", k.step), h)
					break
				}
			}
		}()
		for step, op := range h {
			if op.Kind == "exec" && !op.Pre && produced {
				kept = append(kept, keptD{step - 1, sol, nil, run.Digest([]any{sol, nil})})
			}
			if op.Kind == "execOC" && !op.Pre && produced {
				kept = append(kept, keptD{step - 1, sol, solO, run.Digest([]any{sol, solO})})
			}
			if op.Kind == "exec" || op.Kind == "execOC" {
				produced = true
			}
			replay := func() interface {
				Execute(clip.ClipType, clip.FillRule, *clip.PathsD) bool
				ExecuteOC(clip.ClipType, clip.FillRule, *clip.PathsD, *clip.PathsD) bool
				ExecutePolyTreeD(clip.ClipType, clip.FillRule, *clip.PolyTreeD, *clip.PathsD) bool
				ExecuteWithScaleFunc(clip.ClipType, clip.FillRule, *clip.PathsD, *clip.PathsD, func(Path, float64) clip.PathD) bool
			} {
				f := clip.NewClipperD(prec)
				for _, a := range adds {
					f.AddPaths(toD(a.Paths, div), clip.PathType(a.Type), a.Open)
				}
				return f
			}
			where := fmt.Sprintf("step %d (%s ct=%d fr=%d)", step, op.Kind, op.CT, op.FR)
			ct, fr := clip.ClipType(op.CT), clip.FillRule(op.FR)
			switch op.Kind {
			case "add":
				c.AddPaths(toD(op.Add.Paths, div), clip.PathType(op.Add.Type), op.Add.Open)
				adds = append(adds, op.Add)
				continue
			case "exec":
				if !op.Pre {
					sol = clip.PathsD{}
				}
				ok := c.Execute(ct, fr, &sol)
				want := clip.PathsD{}
				okW := replay().Execute(ct, fr, &want)
				ctx.Eval(2)
				if ok != okW || !eqD(sol, want) {
					ctx.Fail(digest, "execD", "", fmt.Sprintf("%s: ClipperD.Execute (solution pre-filled=%v) gives %v, a fresh engine gives %v", where, op.Pre, sol, want), h)
				}
				nonEmpty = nonEmpty || len(want) > 0
			case "execOC":
				if !op.Pre {
					sol, solO = clip.PathsD{}, clip.PathsD{}
				}
				var ok, okW bool
				want, wantO := clip.PathsD{}, clip.PathsD{}
				if step%2 == 0 {
					ok = c.ExecuteOC(ct, fr, &sol, &solO)
					okW = replay().ExecuteOC(ct, fr, &want, &wantO)
				} else {
					ok = c.ExecuteWithScaleFunc(ct, fr, &sol, &solO, clip.ScalePath64ToPathD)
					okW = replay().ExecuteWithScaleFunc(ct, fr, &want, &wantO, clip.ScalePath64ToPathD)
				}
				ctx.Eval(2)
				if ok != okW || !eqD(sol, want) || !eqD(solO, wantO) {
					ctx.Fail(digest, "execOCD", "", fmt.Sprintf("%s: ClipperD.ExecuteOC/WithScaleFunc (pre-filled=%v) gives closed=%v open=%v, a fresh engine gives closed=%v open=%v", where, op.Pre, sol, solO, want, wantO), h)
				}
			case "tree":
				t := clip.NewPolyTreeD()
				if op.Pre {
					t.AddChild(Path{{X: 9, Y: 9}, {X: 10, Y: 9}, {X: 9, Y: 10}})
				}
				od := junk()
				ok := c.ExecutePolyTreeD(ct, fr, t, &od)
				tw := clip.NewPolyTreeD()
				odw := clip.PathsD{}
				okW := replay().ExecutePolyTreeD(ct, fr, tw, &odw)
				ctx.Eval(2)
				if ok != okW || !sameTree(treeSig(t.PolyPathBase), treeSig(tw.PolyPathBase)) || !eqD(od, odw) {
					ctx.Fail(digest, "treeD", "", fmt.Sprintf("%s: ExecutePolyTreeD on the used engine differs from a fresh engine (%d vs %d nodes; open %v vs %v)", where, len(treeSig(t.PolyPathBase)), len(treeSig(tw.PolyPathBase)), od, odw), h)
				}
			}
			execs++
			if d := scratchDirty(c.VerifScratch()); d != "" {
				ctx.Fail(digest, "scratchD", "", fmt.Sprintf("%s: scratch state not empty after the execution: %s", where, d), h)
			}
		}
	})
	if execs >= 2 && nonEmpty {
		ctx.Nontrivial(digest)
	}
}

func c12Offset(ctx *run.Ctx, id run.CaseID, r *gen.Rng) {
	type step struct {
		Kind  string  `json:"kind"`
		Paths Paths   `json:"paths,omitempty"`
		JT    int     `json:"joinType,omitempty"`
		ET    int     `json:"endType,omitempty"`
		Delta float64 `json:"delta,omitempty"`
		Pre   bool    `json:"prefilled,omitempty"`
	}
	var h []step
	mkPaths := func() Paths {
		R := gen.PickOf(r, 60.0, 2000.0)
		ps, _ := gen.Nested(r, 1+r.Intn(2), 3, R, true, r.Chance(0.3))
		return ps
	}
	h = append(h, step{Kind: "add", Paths: mkPaths(), JT: r.Intn(4), ET: 0})
	for len(h) < 3+r.Intn(6) {
		if r.Chance(0.35) {
			ps := mkPaths()
			et := gen.PickOf(r, 0, 0, 1, 2, 3, 4)
			if et != 0 {
				ps = gen.Polylines(r, 1, 100, nil)
			}
			h = append(h, step{Kind: "add", Paths: ps, JT: r.Intn(4), ET: et})
		} else {
			h = append(h, step{Kind: "exec", Delta: gen.PickOf(r, 0.2, 1, -1, 3.5, -4, 12, -30), Pre: r.Bool()})
		}
	}
	h = append(h, step{Kind: "exec", Delta: gen.PickOf(r, 2.0, -2, 7), Pre: true})
	digest := run.Digest(h)
	ml, at := gen.PickOf(r, 1.0, 2, 4), gen.PickOf(r, 0, 0.25)
	optPC, optRev, optMerge := r.Chance(0.3), r.Chance(0.3), r.Chance(0.8)
	execs := 0
	ctx.Guard(digest, "offset-history", h, func() {
		co := clip.NewClipperOffset(ml, at, optPC, optRev)
		co.MergeGroups = optMerge
		var adds []step
		sol := junkPaths()
		for i, op := range h {
			if op.Kind == "add" {
				co.AddPaths(op.Paths, clip.JoinType(op.JT), clip.EndType(op.ET))
				adds = append(adds, op)
				continue
			}
			if !op.Pre {
				sol = Paths{}
			}
			co.Execute64(op.Delta, &sol)
			f := clip.NewClipperOffset(ml, at, optPC, optRev)
			f.MergeGroups = optMerge
			for _, a := range adds {
				f.AddPaths(a.Paths, clip.JoinType(a.JT), clip.EndType(a.ET))
			}
			want := Paths{}
			f.Execute64(op.Delta, &want)
			ctx.Eval(2)
			execs++
			if !pathsEqual(sol, want) {
				ctx.Fail(digest, "offset-exec", "", fmt.Sprintf("step %d: Execute64(%v) on the used ClipperOffset (pre-filled=%v) gives %v, a fresh object with the same groups gives %v", i, op.Delta, op.Pre, sol, want), h)
			}
			if co.VerifGroupCount() != len(adds) {
				ctx.Fail(digest, "offset-groups", "", fmt.Sprintf("step %d: group count %d after %d AddPaths", i, co.VerifGroupCount(), len(adds)), h)
			}
		}
	})
	if execs >= 2 {
		ctx.Nontrivial(digest)
	}
}

func c12Rect(ctx *run.Ctx, id run.CaseID, r *gen.Rng) {
	var sets []Paths
	for i := 0; i < 2+r.Intn(4); i++ {
		sets = append(sets, smallPaths(r))
	}
	q := pickRect(r, sets[0], r.Bool())
	in := map[string]any{"rect": q, "sets": sets}
	digest := run.Digest(in)
	ctx.Guard(digest, "rect-history", in, func() {
		rc := clip.NewRectClip64(q.lib())
		rl := clip.NewRectClipLines64(q.lib())
		for i, s := range sets {
			got := rc.Execute(s)
			want := clip.NewRectClip64(q.lib()).Execute(s)
			gotL := rl.Execute(s)
			wantL := clip.NewRectClipLines64(q.lib()).Execute(s)
			ctx.Eval(4)
			if !pathsEqual(got, want) {
				ctx.Fail(digest, "rectclip-reuse", "", fmt.Sprintf("execution %d on a reused RectClip64 gives %v, a fresh object gives %v", i, got, want), in)
			}
			if !pathsEqual(gotL, wantL) {
				ctx.Fail(digest, "rectcliplines-reuse", "", fmt.Sprintf("execution %d on a reused RectClipLines64 gives %v, a fresh object gives %v", i, gotL, wantL), in)
			}
			if a, b := rc.VerifScratch(); a != 0 || b != 0 {
				ctx.Fail(digest, "rectclip-scratch", "", fmt.Sprintf("execution %d: results=%d edge entries=%d left in the object", i, a, b), in)
			}
		}
	})
	ctx.Nontrivial(digest)
}

func c12Immut(ctx *run.Ctx, id run.CaseID, r *gen.Rng) {
	subj, clp := smallPaths(r), smallPaths(r)
	open := gen.Polylines(r, 2, 100, subj)
	in := map[string]any{"subject": subj, "clip": clp, "open": open}
	digest := run.Digest(in)
	s0, c0, o0 := gen.Clone(subj), gen.Clone(clp), gen.Clone(open)
	sD, cD := toD(subj, 10), toD(clp, 10)
	sD0 := toD(subj, 10)
	q := pickRect(r, subj, r.Bool())
	check := func(name string) {
		if !pathsEqual(subj, s0) || !pathsEqual(clp, c0) || !pathsEqual(open, o0) {
			ctx.Fail(digest, "mutated/"+name, "", fmt.Sprintf("%s modified a caller-supplied path slice", name), in)
			subj, clp, open = gen.Clone(s0), gen.Clone(c0), gen.Clone(o0)
		}
		for i := range sD {
			for j := range sD[i] {
				if sD[i][j] != sD0[i][j] {
					ctx.Fail(digest, "mutated/"+name, "", fmt.Sprintf("%s modified a caller-supplied PathsD", name), in)
					sD = toD(s0, 10)
					return
				}
			}
		}
	}
	calls := []struct {
		name string
		f    func()
	}{
		{"BooleanOpPaths64", func() { clip.BooleanOpPaths64(clip.ClipType(1+r.Intn(4)), subj, clp, clip.FillRule(r.Intn(4))) }},
		{"BooleanOpPaths64/aliased", func() { clip.BooleanOpPaths64(clip.Xor, subj, subj, clip.EvenOdd) }},
		{"BooleanOpPolyTree64", func() { clip.BooleanOpPolyTree64(clip.Union, subj, clp, clip.NonZero) }},
		{"Clipper64.ExecuteOC", func() {
			c := clip.NewClipper64()
			c.AddPaths(subj, clip.Subject, false)
			c.AddPaths(open, clip.Subject, true)
			c.AddPaths(clp, clip.Clip, false)
			a, b := Paths{}, Paths{}
			c.ExecuteOC(clip.Intersection, clip.NonZero, &a, &b)
			c.ExecuteOC(clip.Difference, clip.EvenOdd, &a, &b)
		}},
		{"BooleanOpPathsD", func() { clip.BooleanOpPathsD(clip.Union, sD, cD, clip.NonZero, 1) }},
		{"InflatePaths64/Polygon", func() { clip.InflatePaths64(subj, gen.PickOf(r, 0.2, 3, -3), clip.JoinType(r.Intn(4)), clip.Polygon) }},
		{"InflatePaths64/open", func() { clip.InflatePaths64(open, 4, clip.Round, clip.EndType(1+r.Intn(4))) }},
		{"InflatePathsD", func() { clip.InflatePathsD(sD, 0.3, clip.Miter, clip.Polygon, clip.WithPrecision(1)) }},
		{"MinkowskiSum64", func() { clip.MinkowskiSum64(subj[0], clp[0], r.Bool()) }},
		{"MinkowskiDiff64", func() { clip.MinkowskiDiff64(subj[0], clp[0], r.Bool()) }},
		{"RectClipPaths64", func() { clip.RectClipPaths64(q.lib(), subj) }},
		{"RectClipLinesPaths64", func() { clip.RectClipLinesPaths64(q.lib(), open) }},
		{"RectClipPathsD", func() {
			clip.RectClipPathsD(clip.NewRectD(float64(q.L)/10, float64(q.T)/10, float64(q.R)/10, float64(q.B)/10), sD, 1)
		}},
		{"TrimCollinear64", func() { clip.TrimCollinear64(subj[0], r.Bool()) }},
		{"SimplifyPath64", func() { clip.SimplifyPath64(subj[0], 2, r.Bool()) }},
		{"SimplifyPaths64", func() { clip.SimplifyPaths64(subj, 1, r.Bool()) }},
		{"SimplifyPathsD", func() { clip.SimplifyPathsD(sD, 0.1, r.Bool()) }},
		{"StripDuplicates", func() { clip.StripDuplicates(subj[0], r.Bool()) }},
		{"Area/Bounds/PIP", func() {
			clip.AreaPaths64(subj)
			clip.GetBounds64(subj[0])
			clip.PointInPolygon(Pt{X: 1, Y: 1}, subj[0])
			clip.Path2ContainsPath1(subj[0], clp[0])
			clip.IsPositive64(subj[0])
		}},
		{"ScalePath64", func() {
			p := clip.ScalePath64(subj[0], 1) // may return its argument: the library itself must still not write to it
			_ = p
			clip.ScalePath64(subj[0], 2.5)
			clip.ScalePaths64ToPathsD(subj, 0.1)
			clip.ScalePathsDToPaths64(sD, 10)
			clip.ScalePathD(sD[0], 1)
		}},
		{"Translate/Offset/Reverse", func() {
			clip.TranslatePaths64(subj, 3, 4)
			clip.OffsetPath(subj[0], 1, 1)
			clip.ReversePath(subj[0])
			clip.TranslatePathsD(sD, 0.5, 0.5)
		}},
		{"ClipperOffset", func() {
			co := clip.NewClipperOffset(2, 0, false, false)
			co.AddPaths(subj, clip.Round, clip.Polygon)
			co.AddPaths(open, clip.Square, clip.Butt)
			s := Paths{}
			co.Execute64(3, &s)
			co.Execute64(0.1, &s) // |delta| < 0.5 hands the stored (stripped) paths back: must be copies or untouched inputs
			for i := range s {
				for j := range s[i] {
					s[i][j].X += 1000 // caller mutates the returned solution
				}
			}
			co.Execute64(2, &s)
		}},
	}
	for _, k := range r.Perm(len(calls)) {
		c := calls[k]
		if len(subj) == 0 || len(clp) == 0 || len(subj[0]) == 0 || len(clp[0]) == 0 {
			break
		}
		if ctx.Guard(digest, "immut/"+c.name, in, c.f) {
			ctx.Eval(1)
			check(c.name)
		}
	}
	ctx.Nontrivial(digest)
}
