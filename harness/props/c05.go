package props

import (
	"fmt"
	"math"

	clip "github.com/bolom009/go-clipper2"

	"verifharness/gen"
	"verifharness/oracle"
	"verifharness/run"
)

// C05 — polygon offsetting grows/shrinks the region by delta.

var c05Specs = []famSpec{
	{Family: "off-nested", FreshQ: 5000, FreshT: 250000},
	{Family: "off-comb", FreshQ: 2000, FreshT: 100000},
	{Family: "off-tiny-delta", FreshQ: 1500, FreshT: 50000},
	{Family: "off-groups", FreshQ: 1500, FreshT: 50000},
	{Family: "off-big", FreshQ: 300, FreshT: 10000},
	{Family: "off-fine-arc", Pool: 100000, PoolQ: 3000},
}

func init() {
	register(&run.Prop{
		ID: "C05",
		Rule: "case = simple polygon set with holes (nested star polygons in disjoint annuli, combs; validated simple by an exact O(n^2) segment test; outer ccw / holes cw or globally flipped; in half of the cases the paths of the set are listed in random order) + delta (both signs, 0.6 .. 3x the size; |delta|<0.5 in off-tiny-delta) + join type (4) + miter limit {1,1.5,2,5} + arc tolerance {0, 0.25, delta/2}; off-fine-arc (closed pool): the off-nested inputs with an explicit arc tolerance of 0.005 (delta*2.5e-7 for large deltas), far below the default 0.002*delta; off-groups adds the clusters as separate ClipperOffset groups, with PreserveCollinear / ReverseSolution switched on at random; off-big: one ring of 200..1200 vertices or 16..64 separate polygons on a grid. " +
			"Checked (tol = 2 + arc tolerance, k = 1 Round/Bevel, sqrt2 Square, max(miterLimit,sqrt2) Miter): delta>0: input-region points and points delta-tol along every edge's outward normal are inside; every result vertex and every sampled result point is within k*delta+tol of the input region; Round: points closer than delta-tol inside, farther than delta+tol outside. " +
			"delta<0: the mirror statements for the complement; |delta|<0.5: output equals the input without repeated points; result canonical modulo the global orientation flip (windings in {0,s}). Non-trivial = non-empty result and >= 10 membership comparisons; distinct by input digest.",
		Assumptions: []string{"exact point-in-region by 128-bit winding; distances in float64 with 0.01 margin", "default arc tolerance is the library's documented 0.002*|delta| when none is given"},
		Floor:       500,
		Cases:       func(tier string, seed uint64) []run.CaseID { return buildCases(c05Specs, tier, seed) },
		RunCase:     c05Run,
	})
}

type offCase struct {
	Paths  Paths   `json:"paths"`
	Groups []int   `json:"groups,omitempty"` // path count per group (off-groups)
	Delta  float64 `json:"delta"`
	Join   int     `json:"joinType"`
	Miter  float64 `json:"miterLimit"`
	ArcTol float64 `json:"arcTolerance"`
	Flip   bool    `json:"flipped"`
}

func jtName(j clip.JoinType) string {
	return [...]string{"Miter", "Square", "Bevel", "Round"}[j]
}

func offInput(id run.CaseID) offCase {
	r := gen.ForCase(id.Family, id.Index, id.Stream)
	var oc offCase
	R := gen.PickOf(r, 40.0, 300.0, 5000.0, 1.0e6, 5.0e7)
	oc.Flip = r.Chance(0.35)
	switch id.Family {
	case "off-comb":
		Ri := int64(R)
		oc.Paths = Paths{gen.Comb(r, r.Range(-Ri, Ri), r.Range(-Ri, Ri), 1+r.Intn(5), max(Ri/15, 3), max(Ri/2, 12), !oc.Flip)}
	case "off-big": // one ring of 200..1200 vertices, or 16..64 separate polygons on a grid (delta may merge neighbours)
		R = gen.PickOf(r, 5000.0, 1.0e6, 5.0e7)
		if r.Bool() {
			oc.Paths = Paths{gen.StarPoly(r, 0, 0, R*0.7, R, 200+r.Intn(1000), !oc.Flip)}
		} else {
			g := 4 + r.Intn(5)
			cell := 2 * R / float64(g)
			for x := 0; x < g; x++ {
				for y := 0; y < g; y++ {
					cx, cy := -R+(float64(x)+0.5)*cell, -R+(float64(y)+0.5)*cell
					oc.Paths = append(oc.Paths, gen.StarPoly(r, int64(cx), int64(cy), cell*0.25, cell*0.4, 5+r.Intn(8), !oc.Flip))
				}
			}
			R = cell
		}
	default:
		clusters := 1 + r.Intn(3)
		ps, _ := gen.Nested(r, clusters, 5, R, true, oc.Flip)
		oc.Paths = ps
		if id.Family == "off-groups" {
			// group boundaries must not split a cluster: recompute per-cluster counts by re-generating
			rr := gen.ForCase(id.Family, id.Index, id.Stream)
			_ = gen.PickOf(rr, 40.0, 300.0, 5000.0, 1.0e6, 5.0e7)
			_ = rr.Chance(0.35)
			_ = rr.Intn(3)
			oc.Groups = nil
		}
	}
	if id.Family != "off-groups" && len(oc.Paths) > 1 && r.Bool() {
		// the order of the paths in the set carries no meaning: holes before their outer rings, clusters interleaved
		sh := make(Paths, len(oc.Paths))
		for i, j := range r.Perm(len(oc.Paths)) {
			sh[i] = oc.Paths[j]
		}
		oc.Paths = sh
	}
	size := R
	mag := gen.PickOf(r, 0.6, 1, 2.5, 7, size*0.02, size*0.1, size*0.4, size*1.5, size*3)
	if id.Family == "off-tiny-delta" {
		mag = gen.PickOf(r, 0, 0.1, 0.3, 0.49)
	}
	if id.Family == "off-big" { // deltas of several times the size make the raw offset of a 1000-vertex ring cross itself ~n^2 times: legitimate but slow, and not what this family is for
		mag = gen.PickOf(r, 0.6, 1, 2.5, 7, size*0.005, size*0.02, size*0.1, size*0.3)
	}
	if mag < 0.6 && id.Family != "off-tiny-delta" {
		mag = 0.6
	}
	oc.Delta = mag
	if r.Bool() {
		oc.Delta = -mag
	}
	oc.Join = r.Intn(4)
	oc.Miter = gen.PickOf(r, 1, 1.5, 2, 5)
	oc.ArcTol = gen.PickOf(r, 0, 0, 0.25, mag/2)
	if id.Family == "off-fine-arc" { // an explicit tolerance far below the default 0.002*delta, but at most ~4500 steps per turn
		oc.ArcTol = 0.005
		if mag > 20000 {
			oc.ArcTol = mag * 2.5e-7
		}
	}
	if r.Chance(0.1) { // a vertex exactly on the origin
		dx, dy := anchorShift(r, []Paths{oc.Paths}, nil)
		oc.Paths = gen.Translate(oc.Paths, dx, dy)
	}
	if id.Family == "off-big" && oc.ArcTol > 0 && oc.ArcTol < mag/500 {
		oc.ArcTol = mag / 500 // <= ~50 steps per quarter turn; hundreds of jagged vertices times thousands of arc points each is legitimate but only slow
	}
	return oc
}

// regionDist is 0 for points of the region (winding != 0 or on the boundary),
// else the distance to the nearest edge.
func regionDist(paths Paths, edges *oracle.Edges, p Pt) (inside bool, d float64) {
	w, on := oracle.Winding(paths, p)
	d = edges.MinDist(p)
	if w != 0 || on {
		return true, d
	}
	return false, d
}

func c05Run(ctx *run.Ctx, id run.CaseID) {
	oc := offInput(id)
	digest := run.Digest(oc)
	if len(oc.Paths) == 0 || !oracle.IsSimpleSet(oc.Paths) {
		ctx.Count("skipped_not_simple", 1)
		return
	}
	jt := clip.JoinType(oc.Join)
	opts := []clip.InflateOption{clip.WithMitterLimit(oc.Miter), clip.WithArcTolerance(oc.ArcTol)}
	var out Paths
	sub := fmt.Sprintf("%s/sign=%v", jtName(jt), oc.Delta >= 0)
	// the offsetter's own options (off-groups only: InflatePaths64 has no way to set them)
	optPC, optRev := false, false
	if id.Family == "off-groups" {
		ro := gen.ForCase(id.Family+"#opts", id.Index, id.Stream)
		optPC, optRev = ro.Chance(0.4), ro.Chance(0.4)
		sub += fmt.Sprintf("/pc=%v/rev=%v", optPC, optRev)
	}
	if id.Family == "off-groups" {
		if !ctx.Guard(digest, sub, oc, func() {
			co := clip.NewClipperOffset(oc.Miter, oc.ArcTol, optPC, optRev)
			// one group per path cluster: paths of one cluster are consecutive and nested; split at depth-0 rings
			start := 0
			for i := 1; i <= len(oc.Paths); i++ {
				if i == len(oc.Paths) || isOuterRing(oc.Paths, i) {
					co.AddPaths(gen.Clone(oc.Paths[start:i]), jt, clip.Polygon)
					start = i
				}
			}
			out = Paths{}
			co.Execute64(oc.Delta, &out)
		}) {
			return
		}
	} else if !ctx.Guard(digest, sub, oc, func() { out = clip.InflatePaths64(gen.Clone(oc.Paths), oc.Delta, jt, clip.Polygon, opts...) }) {
		return
	}
	ctx.Eval(1)
	class := ""
	fail := func(what, detail string) {
		ctx.Fail(digest, what+"/"+sub, class, fmt.Sprintf("%s; delta=%v join=%s miter=%v arcTol=%v flipped=%v paths=%v result=%v", detail, oc.Delta, jtName(jt), oc.Miter, oc.ArcTol, oc.Flip, oc.Paths, out), oc)
	}
	ad := math.Abs(oc.Delta)
	if ad < 0.5 {
		want := make(Paths, len(oc.Paths))
		for i, p := range oc.Paths {
			want[i] = clip.StripDuplicates(p, true)
		}
		if !pathsEqual(out, want) {
			fail("tiny-delta", "|delta| < 0.5 must return the input paths (minus repeated points)")
		}
		ctx.Nontrivial(digest)
		return
	}
	arc := oc.ArcTol
	if arc <= 1e-12 {
		arc = 0.002 * ad
	}
	tol := 2 + arc
	if jt != clip.Round {
		tol = 2 + 0.01
	}
	k := 1.0
	switch jt {
	case clip.Square:
		k = math.Sqrt2
	case clip.Miter:
		k = math.Max(oc.Miter, math.Sqrt2)
	}
	edges := oracle.NewEdges(true, oc.Paths)
	oedges := oracle.NewEdges(true, out)
	r := gen.ForCase(id.Family+"#pts", id.Index, id.Stream)
	compared := 0
	inRes := func(p Pt) (bool, bool) { // inside, decided (false when p lies exactly on the result boundary, e.g. on a zero-width spike)
		w, on := oracle.Winding(out, p)
		return w != 0, !on
	}
	s := 1
	if oc.Flip != optRev { // ReverseSolution flips every orientation together
		s = -1
	}
	// canonical modulo flip
	if d := structuralDefects(out); d != "" {
		fail("structure", d)
	}
	cands := candidates(r, 60, oc.Paths, out)
	cands = append(cands, nearPts(r, out, 40)...)
	for _, p := range cands {
		if oedges.FartherThan(p, 2) {
			w, _ := oracle.Winding(out, p)
			if w != 0 && w != s {
				fail("winding", fmt.Sprintf("result winding %d at %s (allowed 0 or %d)", w, fmtPt(p), s))
				return
			}
		}
	}
	growing := oc.Delta > 0
	// along-normal points of every edge
	if ad-tol > 0.25 {
		step := ad - tol
		for _, path := range oc.Paths {
			n := len(path)
			for i := 0; i < n; i++ {
				a, b := path[i], path[(i+1)%n]
				dx, dy := float64(b.X-a.X), float64(b.Y-a.Y)
				l := math.Hypot(dx, dy)
				if l == 0 {
					continue
				}
				// left normal of a->b is (-dy,dx); for a positively oriented outer ring the interior is on the left,
				// so the region's outward side is the right side (dy,-dx); flipped sets reverse this.
				nx, ny := dy/l, -dx/l
				if oc.Flip {
					nx, ny = -nx, -ny
				}
				for _, t := range []float64{0.5, 0.13, 0.87} {
					mx, my := float64(a.X)+t*dx, float64(a.Y)+t*dy
					var q Pt
					if growing {
						q = Pt{X: int64(math.Round(mx + nx*step)), Y: int64(math.Round(my + ny*step))}
					} else {
						q = Pt{X: int64(math.Round(mx - nx*step)), Y: int64(math.Round(my - ny*step))}
					}
					// rounding moved q by up to 0.71: keep it only if it still is within |delta|-tol of the edge,
					// measured along the normal (its projection falls on the edge)
					if oracle.SegDist(q, a, b) > ad-tol-0.01 {
						q = Pt{X: int64(math.Round(mx + (nx*step-nx*0.75)*sgn(growing))), Y: int64(math.Round(my + (ny*step-ny*0.75)*sgn(growing)))}
						if oracle.SegDist(q, a, b) > ad-tol-0.01 {
							continue
						}
					}
					if pr := (float64(q.X-a.X)*dx + float64(q.Y-a.Y)*dy) / (l * l); pr < 0 || pr > 1 {
						continue
					}
					compared++
					in, decided := inRes(q)
					if !decided {
						continue
					}
					if growing && !in {
						fail("normal-uncovered", fmt.Sprintf("point %s at %.2f along the outward normal of edge %v-%v (delta-tol=%.2f) is outside the result", fmtPt(q), oracle.SegDist(q, a, b), a, b, step))
						return
					}
					if !growing && in {
						// only a violation if q really is on the inner side of the region boundary or outside: it is within |delta|-tol of an edge
						fail("normal-not-removed", fmt.Sprintf("point %s at %.2f along the inward normal of edge %v-%v (|delta|-tol=%.2f) is still inside the result", fmtPt(q), oracle.SegDist(q, a, b), a, b, step))
						return
					}
				}
			}
		}
	}
	// result vertices within k*delta+tol of the input region (growing) / of the complement (shrinking)
	for _, path := range out {
		for _, v := range path {
			in, d := regionDist(oc.Paths, edges, v)
			compared++
			// near-straight joins (cos > 0.999) are mitred whatever the join type: up to delta/cos(1.29deg) = 1.00026*delta
			if jt == clip.Bevel && d <= 1.00026*ad+tol {
				class = "bevel-near-straight-miter"
			}
			if growing && !in && d > k*ad+tol {
				fail("too-far", fmt.Sprintf("result vertex %s is %.2f from the input region, limit k*delta+tol=%.2f", fmtPt(v), d, k*ad+tol))
				return
			}
			if !growing && in && d > k*ad+tol {
				fail("too-far", fmt.Sprintf("result vertex %s is %.2f inside the input region, limit k*|delta|+tol=%.2f", fmtPt(v), d, k*ad+tol))
				return
			}
			class = ""
			if growing && in && d > tol {
				fail("vertex-inside-input", fmt.Sprintf("result vertex %s lies %.2f inside the input region although delta > 0", fmtPt(v), d))
				return
			}
			if !growing && !in && d > tol {
				fail("vertex-outside-input", fmt.Sprintf("result vertex %s lies %.2f outside the input region although delta < 0", fmtPt(v), d))
				return
			}
		}
	}
	// sampled points
	for _, p := range cands {
		in, d := regionDist(oc.Paths, edges, p)
		inR, decided := inRes(p)
		if !decided || !oedges.FartherThan(p, 0.05) {
			continue
		}
		compared++
		var bad string
		if growing {
			switch {
			case in && d > 2 && !inR:
				bad = "input-region point outside the result"
			case !in && d > k*ad+tol && inR:
				bad = fmt.Sprintf("result contains a point %.2f from the input region (limit %.2f)", d, k*ad+tol)
			case jt == clip.Round && !in && d < ad-tol && !inR:
				bad = fmt.Sprintf("Round: point at distance %.2f < delta-tol=%.2f is outside the result", d, ad-tol)
			case jt == clip.Round && !in && d > ad+tol && inR:
				bad = fmt.Sprintf("Round: point at distance %.2f > delta+tol=%.2f is inside the result", d, ad+tol)
			}
		} else {
			switch {
			case !in && d > 2 && inR:
				bad = "point outside the input region is inside the shrunken result"
			case in && d > k*ad+tol && !inR:
				bad = fmt.Sprintf("point %.2f inside the input region (limit %.2f) is missing from the result", d, k*ad+tol)
			case jt == clip.Round && in && d < ad-tol && inR:
				bad = fmt.Sprintf("Round: point only %.2f < |delta|-tol=%.2f inside the boundary is still in the result", d, ad-tol)
			case jt == clip.Round && in && d > ad+tol && !inR:
				bad = fmt.Sprintf("Round: point %.2f > |delta|+tol=%.2f inside the boundary was removed", d, ad+tol)
			}
		}
		if bad != "" {
			class = ""
			if jt == clip.Bevel && ((growing && !in) || (!growing && in)) && d > k*ad+tol && d <= 1.00026*ad+tol {
				class = "bevel-near-straight-miter"
			}
			fail("region", fmt.Sprintf("%s at %s", bad, fmtPt(p)))
			return
		}
	}
	ctx.Count("membership_comparisons", int64(compared))
	if compared >= 10 && (len(out) > 0 || !growing) {
		ctx.Nontrivial(digest)
		if ctx.WantSample() {
			ctx.Sample(map[string]any{"case": id.String(), "input": oc})
		}
	}
}

func sgn(growing bool) float64 {
	if growing {
		return 1
	}
	return -1
}

// isOuterRing reports whether path i starts a new cluster (it is not inside path i-1).
func isOuterRing(ps Paths, i int) bool {
	if len(ps[i]) == 0 || len(ps[i-1]) == 0 {
		return true
	}
	w, _ := oracle.WindingPath(ps[i-1], ps[i][0])
	return w == 0
}
