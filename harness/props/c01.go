package props

import (
	"fmt"
	"math"

	clip "github.com/bolom009/go-clipper2"

	"verifharness/gen"
	"verifharness/oracle"
	"verifharness/run"
)

// C01 — boolean operations return the set-theoretic region.

var c01Specs = []famSpec{
	{Family: "rand-dense", Pool: 200000, PoolQ: 20000},
	{Family: "near-degenerate", Pool: 60000, PoolQ: 6000},
	{Family: "lattice", Pool: 100000, PoolQ: 10000},
	{Family: "rand-mid", Pool: 100000, PoolQ: 5000},
	{Family: "degenerate", Pool: 60000, PoolQ: 3000},
	{Family: "big-n-mid", Pool: 1500, PoolQ: 30},
	{Family: "rand-wide", FreshQ: 6000, FreshT: 300000},
	{Family: "rectilinear", FreshQ: 3000, FreshT: 100000},
	{Family: "rect-soup", Pool: 60000, PoolQ: 3000},
	{Family: "rect-cavity", Pool: 60000, PoolQ: 3000},
	{Family: "touching", FreshQ: 3000, FreshT: 60000},
	{Family: "stacked", FreshQ: 1500, FreshT: 30000},
	{Family: "nested-small", Pool: 40000, PoolQ: 2000},
	{Family: "nested", FreshQ: 2000, FreshT: 60000},
	{Family: "degenerate-wide", FreshQ: 2000, FreshT: 60000},
	{Family: "big-n", FreshQ: 60, FreshT: 2000},
}

func init() {
	register(&run.Prop{
		ID: "C01",
		Rule: "case = (family,index,stream) -> closed subject+clip sets; each case is executed for all 4 clip types x 4 fill rules on a fresh engine " +
			"and the returned region (winding != 0) is compared with the exact boolean combination of fill(winding(subject)), fill(winding(clip)) at integer sample points " +
			"more than 2 units (+margin) from every input edge; in addition the solution's exact signed area is compared with the area of the expected region computed from a slab decomposition of the input edges (difference must not exceed the area of the 2-unit band, 4*L + 4*pi*V). Pool families (stream 0) are a closed, seed-windowed set; other families are generated fresh from VERIF_SEED. " +
			"A case is non-trivial when its Union/NonZero execution processed >= 3 edge intersections (hook counter) and >= 1 eligible sample point existed; distinct = distinct input digests.",
		Assumptions: []string{
			"oracle: exact winding numbers by 128-bit integer cross products; eligibility by float64 distance with a conservative margin (points are only ever excluded, never wrongly included)",
			"a nil subject is outside the domain (BooleanOpPaths64 documents 'no subject -> empty')",
			"sampling: a mismatch region that contains no sampled integer point is not observed",
		},
		Floor:   500,
		Cases:   func(tier string, seed uint64) []run.CaseID { return buildCases(c01Specs, tier, seed) },
		RunCase: c01Run,
	})
}

type regionProbe struct {
	pts    []Pt
	wS, wC []int
}

// buildProbe filters candidates to eligible points and computes input windings.
func buildProbe(cands []Pt, subj, clp Paths, edges *oracle.Edges, thr float64) *regionProbe {
	pr := &regionProbe{}
	for _, p := range cands {
		if !edges.FartherThan(p, thr) {
			continue
		}
		ws, on1 := oracle.Winding(subj, p)
		wc, on2 := oracle.Winding(clp, p)
		if on1 || on2 {
			continue
		}
		pr.pts = append(pr.pts, p)
		pr.wS = append(pr.wS, ws)
		pr.wC = append(pr.wC, wc)
	}
	return pr
}

func c01Run(ctx *run.Ctx, id run.CaseID) {
	subj, clp := boolInput(id)
	in := boolCaseJSON{subj, clp}
	digest := run.Digest(in)
	if gen.MaxAbs(subj, clp) > gen.MaxC {
		return
	}
	r := gen.ForCase(id.Family+"#pts", id.Index, id.Stream)
	edges := oracle.NewEdges(true, subj, clp)
	nUni := 60
	if edges.Len() > 400 {
		nUni = 250
	}
	probe := buildProbe(candidates(r, nUni, subj, clp), subj, clp, edges, 2)
	ctx.Count("eligible_points", int64(len(probe.pts)))
	nontrivial := false
	// exact-area oracle: the arrangement of the input edges, once per case. The solution may differ from the exact
	// region only inside the 2-unit band around the input edges, whose area is at most 4*L + 4*pi*V.
	cells, cellsOK := oracle.Decompose(subj, clp, 400)
	bandArea := 4*edgeLen(subj, clp) + 13*float64(gen.NumVerts(subj, clp)) + 4
	for _, ct := range clipTypes {
		for _, fr := range fillRules {
			var sol Paths
			var rec *clip.VerifRecorder
			var okExec bool
			sub := "region/" + ctName(ct) + "/" + frName(fr)
			if !ctx.Guard(digest, sub, in, func() { sol, rec, okExec = execBool(subj, clp, ct, fr, false) }) {
				continue
			}
			ctx.Eval(1)
			if ct == clip.Union && fr == clip.NonZero {
				addCounts(ctx, rec)
				if rec.Counts["intersect"] >= 3 && len(probe.pts) > 0 {
					nontrivial = true
				}
			}
			if !okExec {
				ctx.Fail(digest, "execute-false/"+ctName(ct)+"/"+frName(fr), "", "Execute returned false", in)
				continue
			}
			if cellsOK {
				want := 0.0
				for _, c := range cells {
					if oracle.BoolOp(ct, oracle.Fill(fr, c.WS), oracle.Fill(fr, c.WC)) {
						want += c.Area
					}
				}
				got := oracle.Area2Paths(sol).Float() / 2
				ctx.Count("areas_compared", 1)
				if d := math.Abs(got - want); d > bandArea+1e-7*want {
					// attribution to the join / repair events of this execution, by area
					class := ""
					ta := 0.0
					for _, t := range discardEvents(subj, clp, ct, fr) {
						ta += t.area
					}
					if ta > 0 && d <= bandArea+1e-7*want+ta*1.0001 {
						class = "repair-discarded-loop"
					}
					ctx.Fail(digest, "area/"+ctName(ct)+"/"+frName(fr), class, fmt.Sprintf("solution area %.1f, exact area of the expected region %.1f, difference %.1f > area of the 2-unit band %.1f; solution=%v", got, want, d, bandArea, sol), in)
				}
			}
			// extra probes near output vertices
			extra := buildProbe(nearPts(r, sol, 24), subj, clp, edges, 2)
			bad := 0
			check := func(pr *regionProbe) {
				for i, p := range pr.pts {
					want := oracle.BoolOp(ct, oracle.Fill(fr, pr.wS[i]), oracle.Fill(fr, pr.wC[i]))
					w, on := oracle.Winding(sol, p)
					got := w != 0 || on
					ctx.Count("points_compared", 1)
					if got != want && bad == 0 {
						bad++
						ctx.Fail(digest, sub, discardClassPoint(subj, clp, ct, fr, p), fmt.Sprintf("point %s: winding subject=%d clip=%d -> expected inside=%v, solution winding=%d (on boundary=%v); distance to nearest input edge=%.3f; solution=%v",
							fmtPt(p), pr.wS[i], pr.wC[i], want, w, on, edges.MinDist(p), sol), in)
					}
				}
			}
			check(probe)
			check(extra)
		}
	}
	// wrappers must equal the generic entry point bit for bit (one combination per case)
	fr := fillRules[r.Intn(4)]
	ctx.Guard(digest, "wrappers", in, func() {
		type w struct {
			name string
			got  Paths
			ct   clip.ClipType
		}
		ws := []w{
			{"UnionWithClipPaths64", clip.UnionWithClipPaths64(subj, clp, fr), clip.Union},
			{"IntersectWithClipPaths64", clip.IntersectWithClipPaths64(subj, clp, fr), clip.Intersection},
			{"DifferenceWithClipPaths64", clip.DifferenceWithClipPaths64(subj, clp, fr), clip.Difference},
			{"XorWithClipPaths64", clip.XorWithClipPaths64(subj, clp, fr), clip.Xor},
		}
		for _, x := range ws {
			ref := clip.BooleanOpPaths64(x.ct, subj, clp, fr)
			eng, _, _ := execBool(subj, clp, x.ct, fr, false)
			ctx.Eval(3)
			if !pathsEqual(ref, x.got) || !pathsEqual(ref, eng) {
				ctx.Fail(digest, "wrapper/"+x.name, "", fmt.Sprintf("%s(%s) differs from BooleanOpPaths64 / engine: wrapper=%v generic=%v engine=%v", x.name, frName(fr), x.got, ref, eng), in)
			}
		}
	})
	if nontrivial {
		ctx.Nontrivial(digest)
		if ctx.WantSample() {
			ctx.Sample(map[string]any{"case": id.String(), "subject": subj, "clip": clp, "eligible_points": len(probe.pts)})
		}
	}
}
