package props

import (
	"fmt"
	"math"

	clip "github.com/bolom009/go-clipper2"

	"verifharness/gen"
	"verifharness/oracle"
	"verifharness/run"
)

// C10 — open-path offsetting produces the stroke of half-width delta.

var c10Specs = []famSpec{
	{Family: "stroke-rand", Pool: 200000, PoolQ: 5000},
	{Family: "stroke-degenerate", Pool: 100000, PoolQ: 2500},
	{Family: "stroke-point", Pool: 20000, PoolQ: 1000},
	{Family: "stroke-loop", FreshQ: 1500, FreshT: 50000},
	{Family: "stroke-generic", FreshQ: 3000, FreshT: 150000},
}

func init() {
	register(&run.Prop{
		ID: "C10",
		Rule: "case = open polyline(s) (1, 2 or many points; stroke-degenerate plants duplicate points, collinear runs, horizontal/vertical runs; stroke-loop: star-shaped polylines that return to their first point) + delta in [0.5, 3x size] + end type (Butt, Square, Round, Joined) + join type (4) + miter limit + arc tolerance. " +
			"Checked, sub-check by sub-check so that the one known finding does not blind the rest: (a) result canonical (>=3 vertices, no repeated vertices, winding in {0,1} away from result edges); (b) every result vertex within k*delta+tol of the polyline; " +
			"(c) points delta-tol along both normals of interior segments inside; (d) the same for the first/last segment and cap extents (Butt stops within tol of the end point, Square/Round reach delta-tol beyond it); (e) Joined: closing segment stroked too; (f) single point: square/circle of radius delta. " +
			"Non-trivial = non-empty result and >= 6 membership comparisons; distinct by input digest.",
		Assumptions: []string{"tol = 2 + arc tolerance (default 0.002*delta for round joins/caps); float distances with 0.01 margin; exact winding",
			"the cap_skipped hook event of offsetOpenPath is what identifies the known end-cap finding: an uncovered point near an end is attributed only when that event was logged for that end"},
		Floor:   400,
		Cases:   func(tier string, seed uint64) []run.CaseID { return buildCases(c10Specs, tier, seed) },
		RunCase: c10Run,
	})
}

type strokeCase struct {
	Lines  Paths   `json:"lines"`
	Delta  float64 `json:"delta"`
	Join   int     `json:"joinType"`
	End    int     `json:"endType"`
	Miter  float64 `json:"miterLimit"`
	ArcTol float64 `json:"arcTolerance"`
}

func etName(e clip.EndType) string {
	return [...]string{"Polygon", "Joined", "Butt", "Square", "Round"}[e]
}

func strokeInput(id run.CaseID) strokeCase {
	r := gen.ForCase(id.Family, id.Index, id.Stream)
	var sc strokeCase
	R := gen.PickOf(r, int64(60), 500, 20000, 1<<22)
	switch id.Family {
	case "stroke-point":
		sc.Lines = Paths{{{X: r.Range(-R, R), Y: r.Range(-R, R)}}}
	case "stroke-degenerate":
		n := 2 + r.Intn(6)
		p := Path{{X: r.Range(-R, R), Y: r.Range(-R, R)}}
		for len(p) < n {
			last := p[len(p)-1]
			switch r.Intn(5) {
			case 0:
				p = append(p, last)
			case 1:
				p = append(p, Pt{X: r.Range(-R, R), Y: last.Y})
			case 2:
				p = append(p, Pt{X: last.X, Y: r.Range(-R, R)})
			case 3:
				if len(p) >= 2 { // collinear continuation
					pp := p[len(p)-2]
					t := r.Range(1, 3)
					p = append(p, Pt{X: clampC(last.X + t*(last.X-pp.X)), Y: clampC(last.Y + t*(last.Y-pp.Y))})
				} else {
					p = append(p, Pt{X: r.Range(-R, R), Y: r.Range(-R, R)})
				}
			default:
				p = append(p, Pt{X: r.Range(-R, R), Y: r.Range(-R, R)})
			}
		}
		sc.Lines = Paths{p}
	case "stroke-loop":
		// a polyline that returns to its first point (a loop written down as an open path): star-shaped, long segments
		// relative to delta, so that it approaches itself only at the common end point
		n := 3 + r.Intn(6)
		p := gen.StarPoly(r, r.Range(-R, R), r.Range(-R, R), float64(R)*0.5, float64(R), n, r.Bool())
		p = append(p, p[0])
		if r.Chance(0.2) { // and once more round part of the loop
			p = append(p, p[1])
		}
		sc.Lines = Paths{p}
		sc.Delta = math.Max(1, gen.PickOf(r, 1, 1.5, 2.5, 6, float64(R)*0.005, float64(R)*0.03))
		sc.Join = r.Intn(4)
		sc.End = 1 + r.Intn(4)
		sc.Miter = gen.PickOf(r, 1.0, 2, 5)
		sc.ArcTol = gen.PickOf(r, 0, 0, 0.25, sc.Delta/2)
		if r.Chance(0.1) { // a vertex exactly on the origin
			dx, dy := anchorShift(r, nil, []Paths{sc.Lines})
			sc.Lines = gen.Translate(sc.Lines, dx, dy)
		}
		return sc
	case "stroke-generic":
		// x-monotone polyline with long segments relative to delta: never approaches itself
		n := 2 + r.Intn(6)
		x, y := r.Range(-R, 0), r.Range(-R, R)
		p := Path{{X: x, Y: y}}
		for len(p) < n {
			x += R/4 + r.Range(0, R/2)
			y = r.Range(-R, R)
			p = append(p, Pt{X: x, Y: y})
		}
		sc.Lines = Paths{p}
		// delta >= 1 in the fresh family: with delta in [0.5,1) the two sides of the stroke round onto each other and
		// the outline degenerates (thin strokes are exercised by the closed pools, where such cases are listed)
		sc.Delta = math.Max(1, gen.PickOf(r, 1, 1.5, 2.5, 6, float64(R)*0.005, float64(R)*0.03))
		sc.Join = r.Intn(4)
		sc.End = 1 + r.Intn(4)
		sc.Miter = gen.PickOf(r, 1.0, 2, 5)
		sc.ArcTol = gen.PickOf(r, 0, 0, 0.25, sc.Delta/2)
		if r.Chance(0.1) { // a vertex exactly on the origin
			dx, dy := anchorShift(r, nil, []Paths{sc.Lines})
			sc.Lines = gen.Translate(sc.Lines, dx, dy)
		}
		return sc
	default:
		k := 1 + r.Intn(2)
		for i := 0; i < k; i++ {
			n := 2 + r.Intn(6)
			p := make(Path, n)
			for j := range p {
				p[j] = Pt{X: r.Range(-R, R), Y: r.Range(-R, R)}
			}
			sc.Lines = append(sc.Lines, p)
		}
	}
	sc.Delta = gen.PickOf(r, 0.5, 1, 2.5, 6, float64(R)*0.02, float64(R)*0.15, float64(R)*0.8, float64(R)*3)
	if sc.Delta < 0.5 {
		sc.Delta = 0.5
	}
	sc.Join = r.Intn(4)
	sc.End = 1 + r.Intn(4)
	sc.Miter = gen.PickOf(r, 1.0, 2, 5)
	sc.ArcTol = gen.PickOf(r, 0, 0, 0.25, sc.Delta/2)
	return sc
}

func c10Run(ctx *run.Ctx, id run.CaseID) {
	sc := strokeInput(id)
	digest := run.Digest(sc)
	jt, et := clip.JoinType(sc.Join), clip.EndType(sc.End)
	sub := etName(et) + "/" + jtName(jt)
	var out Paths
	rec := clip.NewVerifRecorder(true)
	if !ctx.Guard(digest, sub, sc, func() {
		co := clip.NewClipperOffset(sc.Miter, sc.ArcTol, false, false)
		co.VerifRecord(rec)
		co.AddPaths(gen.Clone(sc.Lines), jt, et)
		out = Paths{}
		co.Execute64(sc.Delta, &out)
	}) {
		return
	}
	ctx.Eval(1)
	for k, v := range rec.Counts {
		ctx.Count("hook."+k, v)
	}
	// the convenience function must agree
	var out2 Paths
	if ctx.Guard(digest, "InflatePaths64/"+sub, sc, func() {
		out2 = clip.InflatePaths64(gen.Clone(sc.Lines), sc.Delta, jt, et, clip.WithMitterLimit(sc.Miter), clip.WithArcTolerance(sc.ArcTol))
	}) {
		ctx.Eval(1)
		if !pathsEqual(out, out2) {
			ctx.Fail(digest, "entry-points/"+sub, "", fmt.Sprintf("InflatePaths64 %v differs from ClipperOffset %v", out2, out), sc)
		}
	}
	capSkipped := map[Pt]bool{}
	for _, ev := range rec.Events {
		if ev.Site == "cap_skipped" {
			capSkipped[ev.Pt] = true
		}
	}
	fail := func(what, class, detail string) {
		ctx.Fail(digest, what+"/"+sub, class, fmt.Sprintf("%s; delta=%v end=%s join=%s miter=%v arcTol=%v lines=%v result=%v", detail, sc.Delta, etName(et), jtName(jt), sc.Miter, sc.ArcTol, sc.Lines, out), sc)
	}
	d := sc.Delta
	arc := sc.ArcTol
	if arc <= 1e-12 {
		arc = 0.002 * d
	}
	tol := 2.01 + arc
	k := 1.0
	switch jt {
	case clip.Square:
		k = math.Sqrt2
	case clip.Miter:
		k = math.Max(sc.Miter, math.Sqrt2)
	}
	if et == clip.SquareET || (et == clip.Joined && jt != clip.Round) || et == clip.Butt {
		k = math.Max(k, math.Sqrt2)
	}
	if jt == clip.Bevel { // near-straight joins are mitred: see KF-C05-bevel-near-straight
		k = math.Max(k, 1.00026)
	}
	closedLoop := et == clip.Joined
	ledges := oracle.NewEdges(closedLoop, sc.Lines)
	oedges := oracle.NewEdges(true, out)
	compared := 0
	// (a) canonical
	if s := structuralDefects(out); s != "" {
		fail("structure", "", s)
	}
	r := gen.ForCase(id.Family+"#pts", id.Index, id.Stream)
	cands := append(candidates(r, 40, sc.Lines, out), nearPts(r, out, 30)...)
	for _, p := range cands {
		if oedges.FartherThan(p, 2) {
			compared++
			if w, _ := oracle.Winding(out, p); w != 0 && w != 1 {
				fail("winding", "", fmt.Sprintf("result winding %d at %s", w, fmtPt(p)))
				break
			}
		}
	}
	// (b) nothing farther than k*delta + tol
	for _, path := range out {
		for _, v := range path {
			compared++
			if dist := ledges.MinDist(v); dist > k*d+tol {
				class := ""
				// a square join at a near-reversal (cos < -0.999, applied on both sides) reaches sqrt(1+((1+sin a)/cos a)^2) = 1.43030*delta at a = 1.2814 deg (cos 2a = 0.999)
				if k <= math.Sqrt2 && jt != clip.Round && jt != clip.Bevel && dist <= 1.43031*d+tol {
					class = "square-join-near-reversal"
				}
				fail("too-far", class, fmt.Sprintf("result vertex %s is %.2f from the polyline, limit k*delta+tol = %.2f", fmtPt(v), dist, k*d+tol))
				goto cover
			}
		}
	}
	for _, p := range cands {
		if w, on := oracle.Winding(out, p); (w != 0) && !on {
			compared++
			if dist := ledges.MinDist(p); dist > k*d+tol {
				class := ""
				if k <= math.Sqrt2 && jt != clip.Round && jt != clip.Bevel && dist <= 1.43031*d+tol {
					class = "square-join-near-reversal"
				}
				fail("too-far", class, fmt.Sprintf("result contains %s which is %.2f from the polyline, limit %.2f", fmtPt(p), dist, k*d+tol))
				goto cover
			}
		}
	}
cover:
	inside := func(q Pt) (bool, bool) {
		w, on := oracle.Winding(out, q)
		return w != 0, !on
	}
	step := d - tol
	for _, line := range sc.Lines {
		// distinct consecutive points
		var pts Path
		for _, v := range line {
			if len(pts) == 0 || pts[len(pts)-1] != v {
				pts = append(pts, v)
			}
		}
		if closedLoop && len(pts) > 1 && pts[0] == pts[len(pts)-1] {
			pts = pts[:len(pts)-1]
		}
		if len(pts) == 1 {
			// (f) single point
			c := pts[0]
			if d-tol <= 0.5 {
				continue
			}
			if closedLoop && len(out) == 0 {
				fail("point-shape", "single-point-joined-stripped", fmt.Sprintf("single point %s with end type Joined gives an empty result", fmtPt(c)))
				continue
			}
			dd := int64(d - tol)
			for _, q := range []Pt{c, {X: c.X + dd*7/10, Y: c.Y}, {X: c.X, Y: c.Y - dd*7/10}, {X: c.X - dd/2, Y: c.Y + dd/2}} {
				if math.Hypot(float64(q.X-c.X), float64(q.Y-c.Y)) > d-tol && q != c {
					continue
				}
				compared++
				if in, dec := inside(q); dec && !in {
					fail("point-shape", "", fmt.Sprintf("single point %s: %s (within delta-tol) is outside the result", fmtPt(c), fmtPt(q)))
					break
				}
			}
			continue
		}
		nseg := len(pts) - 1
		if closedLoop && len(pts) > 2 {
			nseg = len(pts)
		}
		for i := 0; i < nseg; i++ {
			a, b := pts[i], pts[(i+1)%len(pts)]
			dx, dy := float64(b.X-a.X), float64(b.Y-a.Y)
			l := math.Hypot(dx, dy)
			isEnd := (!closedLoop || len(pts) == 2) && (i == 0 || i == nseg-1)
			if step > 0.25 {
				for _, side := range []float64{1, -1} {
					for _, t := range []float64{0.5, 0.1, 0.9} {
						mx, my := float64(a.X)+t*dx, float64(a.Y)+t*dy
						q := Pt{X: int64(math.Round(mx + side*dy/l*(step-0.75))), Y: int64(math.Round(my - side*dx/l*(step-0.75)))}
						if step-0.75 <= 0 || oracle.SegDist(q, a, b) > step-0.01 {
							continue
						}
						if pr := (float64(q.X-a.X)*dx + float64(q.Y-a.Y)*dy) / (l * l); pr < 0 || pr > 1 {
							continue
						}
						compared++
						if in, dec := inside(q); dec && !in {
							what, class := "normal-uncovered", ""
							if isEnd {
								what = "end-segment-uncovered"
								// attribute only if the cap switch was skipped for the end this segment belongs to
								end := a
								if i == nseg-1 && i != 0 {
									end = b
								} else if i == 0 && nseg == 1 {
									end = a
								}
								if capSkipped[end] || (nseg == 1 && capSkipped[b]) {
									class = "open-path-cap-skipped"
								}
							}
							fail(what, class, fmt.Sprintf("point %s, %.2f along the normal of segment %v-%v (delta-tol=%.2f), is outside the result", fmtPt(q), oracle.SegDist(q, a, b), a, b, step))
							goto nextline
						}
					}
				}
			}
		}
		// (d) cap extents at both ends
		if !closedLoop {
			for _, e := range []struct{ end, prev Pt }{{pts[0], pts[1]}, {pts[len(pts)-1], pts[len(pts)-2]}} {
				tx, ty := float64(e.end.X-e.prev.X), float64(e.end.Y-e.prev.Y)
				tl := math.Hypot(tx, ty)
				tx, ty = tx/tl, ty/tl
				class := ""
				if capSkipped[e.end] {
					class = "open-path-cap-skipped"
				}
				switch et {
				case clip.SquareET, clip.RoundET:
					if step > 1 {
						q := Pt{X: int64(math.Round(float64(e.end.X) + tx*(step-0.75))), Y: int64(math.Round(float64(e.end.Y) + ty*(step-0.75)))}
						if math.Hypot(float64(q.X-e.end.X), float64(q.Y-e.end.Y)) <= step-0.01 {
							compared++
							if in, dec := inside(q); dec && !in {
								fail("cap-missing", class, fmt.Sprintf("%s cap: point %s, %.2f beyond end point %s along the line, is outside the result", etName(et), fmtPt(q), math.Hypot(float64(q.X-e.end.X), float64(q.Y-e.end.Y)), fmtPt(e.end)))
							}
						}
					}
				case clip.Butt:
					// a point tol+1 beyond the end along the tangent must be outside unless other segments explain it
					q := Pt{X: int64(math.Round(float64(e.end.X) + tx*(tol+1.5))), Y: int64(math.Round(float64(e.end.Y) + ty*(tol+1.5)))}
					others := oracle.NewEdges(false, Paths{pts})
					_ = others
					// distance to every segment except the end segment
					farFromRest := true
					for _, ln := range sc.Lines {
						for j := 0; j+1 < len(ln); j++ {
							if (ln[j] == e.end && ln[j+1] == e.prev) || (ln[j] == e.prev && ln[j+1] == e.end) {
								continue
							}
							if oracle.SegDist(q, ln[j], ln[j+1]) <= k*d+tol {
								farFromRest = false
							}
						}
					}
					// beyond the end by more than tol, measured along the tangent, and laterally on the axis
					if farFromRest && oracle.SegDist(q, e.end, e.prev) > tol {
						compared++
						if in, dec := inside(q); dec && in {
							fail("butt-overshoot", "", fmt.Sprintf("Butt end: point %s lies %.2f beyond end point %s yet is inside the result", fmtPt(q), oracle.SegDist(q, e.end, e.prev), fmtPt(e.end)))
						}
					}
				}
			}
		}
	nextline:
	}
	ctx.Count("membership_comparisons", int64(compared))
	if len(out) > 0 && compared >= 6 {
		ctx.Nontrivial(digest)
		if ctx.WantSample() {
			ctx.Sample(map[string]any{"case": id.String(), "input": sc})
		}
	}
}
