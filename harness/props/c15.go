package props

import (
	"fmt"

	clip "github.com/bolom009/go-clipper2"

	"verifharness/gen"
	"verifharness/oracle"
	"verifharness/run"
)

// C15 — TrimCollinear64 removes exactly the redundant vertices.

var c15Specs = []famSpec{
	{Family: "trim-tiny", Pool: 2000000, PoolQ: 100000},
	{Family: "trim-planted", FreshQ: 30000, FreshT: 3000000},
	{Family: "trim-wide", FreshQ: 30000, FreshT: 3000000},
}

func init() {
	register(&run.Prop{
		ID: "C15",
		Rule: "case = one path + open/closed flag. trim-tiny: 3-9 points in [-3,3]^2 or [-6,6]^2 (spikes, duplicates, runs spanning index 0, differences of exactly 1; closed pool); " +
			"trim-planted: random paths at magnitudes up to 2^29 with planted exactly-collinear runs, spikes and duplicates; trim-wide: generic random paths. " +
			"Checked with exact arithmetic: output is a (cyclic) subsequence; closed: exact signed area unchanged, winding of off-boundary sample points unchanged, no three cyclically consecutive collinear result vertices, empty iff < 3 remain, idempotent; open: end points kept. " +
			"Non-trivial = at least one vertex removed and at least 3 kept; distinct by path digest.",
		Assumptions: []string{"exact collinearity / area / winding by 128-bit integer arithmetic",
			"known-finding attribution uses an as-built model of the trimming algorithm with the documented faulty sign function; a failure is attributed only if the library's output equals that model's output"},
		Floor:   1000,
		Cases:   func(tier string, seed uint64) []run.CaseID { return buildCases(c15Specs, tier, seed) },
		RunCase: c15Run,
	})
}

func exactCol(a, b, c Pt) bool { return oracle.CrossSign(a, b, c) == 0 }

func asBuiltCol(p1, sh, p2 Pt) bool {
	a, b, c, d := collinearArgs(p1, sh, p2)
	return productsModelAsBuilt(a, b, c, d)
}

// trimModel is the trimming algorithm as designed upstream, parameterised by
// the collinearity predicate (used for attribution only, never as the oracle).
func trimModel(path Path, isOpen bool, col func(a, b, c Pt) bool) Path {
	l := len(path)
	i := 0
	if !isOpen {
		for i < l-1 && col(path[l-1], path[i], path[i+1]) {
			i++
		}
		for i < l-1 && col(path[l-2], path[l-1], path[i]) {
			l--
		}
	}
	if l-i < 3 {
		if !isOpen || l < 2 || path[0] == path[1] {
			return Path{}
		}
		return path
	}
	result := make(Path, 0, l-i)
	last := path[i]
	result = append(result, last)
	for i++; i < l-1; i++ {
		if col(last, path[i], path[i+1]) {
			continue
		}
		last = path[i]
		result = append(result, last)
	}
	if isOpen {
		result = append(result, path[l-1])
	} else if !col(last, path[l-1], result[0]) {
		result = append(result, path[l-1])
	} else {
		for len(result) > 2 && col(result[len(result)-1], result[len(result)-2], result[0]) {
			result = result[:len(result)-1]
		}
		if len(result) < 3 {
			result = Path{}
		}
	}
	return result
}

func pathEq(a, b Path) bool {
	if len(a) != len(b) {
		return false
	}
	for i := range a {
		if a[i] != b[i] {
			return false
		}
	}
	return true
}

// isCyclicSubseq reports whether out is a subsequence of some rotation of in
// (by value; greedy matching from every start).
func isCyclicSubseq(out, in Path, cyclic bool) bool {
	if len(out) == 0 {
		return true
	}
	n := len(in)
	starts := 1
	if cyclic {
		starts = n
	}
	for s := 0; s < starts; s++ {
		j := 0
		for k := 0; k < n && j < len(out); k++ {
			if in[(s+k)%n] == out[j] {
				j++
			}
		}
		if j == len(out) {
			return true
		}
	}
	return false
}

func trimInput(id run.CaseID) (Path, bool) {
	r := gen.ForCase(id.Family, id.Index, id.Stream)
	isOpen := r.Chance(0.3)
	var p Path
	switch id.Family {
	case "trim-tiny":
		R := gen.PickOf(r, int64(2), 3, 6)
		n := 3 + r.Intn(7)
		if r.Chance(0.05) {
			n = r.Intn(3)
		}
		p = make(Path, n)
		for i := range p {
			p[i] = Pt{X: r.Range(-R, R), Y: r.Range(-R, R)}
			if i > 0 && r.Chance(0.15) {
				p[i] = p[i-1]
			}
			if i > 1 && r.Chance(0.1) {
				p[i] = p[i-2] // spike
			}
		}
	case "trim-planted":
		R := gen.PickOf(r, int64(50), 5000, 1<<20, 1<<27)
		n := 4 + r.Intn(10)
		cur := Pt{X: r.Range(-R, R), Y: r.Range(-R, R)}
		p = append(p, cur)
		for len(p) < n {
			switch r.Intn(5) {
			case 0, 1: // collinear run along a small direction vector
				v := Pt{X: r.Range(-30, 30), Y: r.Range(-30, 30)}
				for k := 0; k < 1+r.Intn(4); k++ {
					t := r.Range(-20, 40)
					cur = Pt{X: clampC(cur.X + t*v.X), Y: clampC(cur.Y + t*v.Y)}
					p = append(p, cur)
				}
			case 2: // duplicate
				p = append(p, cur)
			case 3: // spike back to an earlier vertex
				p = append(p, p[r.Intn(len(p))])
				cur = p[len(p)-1]
			default:
				cur = Pt{X: r.Range(-R, R), Y: r.Range(-R, R)}
				p = append(p, cur)
			}
		}
		if r.Chance(0.3) { // rotate so that runs span index 0
			k := r.Intn(len(p))
			p = append(append(Path{}, p[k:]...), p[:k]...)
		}
	default: // trim-wide
		R := gen.PickOf(r, int64(100), 100000, gen.MaxC)
		p = gen.RandPaths(r, 1, 10, R)[0]
	}
	return p, isOpen
}

func c15Run(ctx *run.Ctx, id run.CaseID) {
	path, isOpen := trimInput(id)
	in := map[string]any{"path": path, "isOpen": isOpen}
	digest := run.Digest(in)
	orig := gen.ClonePath(path)
	var out Path
	if !ctx.Guard(digest, "TrimCollinear64", in, func() { out = clip.TrimCollinear64(path, isOpen) }) {
		return
	}
	ctx.Eval(1)
	// attribution: does the library equal the as-built model, and does the model with the exact predicate differ?
	classify := func() string {
		mb := trimModel(orig, isOpen, asBuiltCol)
		me := trimModel(orig, isOpen, exactCol)
		if pathEq(mb, out) && !pathEq(mb, me) {
			return "trisign-plus-one-as-zero"
		}
		if pathEq(me, out) {
			return "trim-algorithm-as-designed"
		}
		return ""
	}
	fail := func(sub, detail string) {
		ctx.Fail(digest, sub, classify(), fmt.Sprintf("%s; TrimCollinear64(%v, isOpen=%v) = %v", detail, orig, isOpen, out), in)
	}
	for i := range orig {
		if path[i] != orig[i] {
			fail("input-mutated", "input path was modified")
			break
		}
	}
	if !isCyclicSubseq(out, orig, !isOpen) {
		fail("subsequence", "output is not a (cyclic) subsequence of the input")
		return
	}
	if isOpen {
		if len(orig) >= 2 && len(out) > 0 {
			if out[0] != orig[0] || out[len(out)-1] != orig[len(orig)-1] {
				fail("open-ends", "open path end points not kept")
			}
		}
		if len(orig) >= 2 && orig[0] != orig[1] && len(out) == 0 {
			// an open path with >= 2 distinct leading points must keep its ends
			fail("open-ends", "open path with distinct end points returned empty")
		}
	} else {
		if len(out) == 1 || len(out) == 2 {
			fail("closed-short", fmt.Sprintf("closed result has %d vertices", len(out)))
		}
		// exact area
		if oracle.Area2(out).Cmp(oracle.Area2(orig)) != 0 {
			fail("area", fmt.Sprintf("exact signed area changed: 2A(in)=%s 2A(out)=%s", oracle.Area2(orig).Big(), oracle.Area2(out).Big()))
		} else {
			// winding at off-boundary points near the path
			r := gen.ForCase(id.Family+"#pts", id.Index, id.Stream)
			x0, y0, x1, y1, ok := oracle.Bounds(Paths{orig})
			if ok {
				for k := 0; k < 24; k++ {
					p := Pt{X: r.Range(x0-1, x1+1), Y: r.Range(y0-1, y1+1)}
					if k < 8 && len(orig) > 0 {
						v := orig[r.Intn(len(orig))]
						p = Pt{X: v.X + r.Range(-2, 2), Y: v.Y + r.Range(-2, 2)}
					}
					w1, on1 := oracle.WindingPath(orig, p)
					w2, on2 := oracle.WindingPath(out, p)
					if on1 || on2 {
						continue
					}
					ctx.Count("points_compared", 1)
					if w1 != w2 {
						fail("winding", fmt.Sprintf("winding at %s changed from %d to %d", fmtPt(p), w1, w2))
						break
					}
				}
			}
		}
		n := len(out)
		for i := 0; i < n && n >= 3; i++ {
			if exactCol(out[(i+n-1)%n], out[i], out[(i+1)%n]) {
				fail("residual-collinear", fmt.Sprintf("result vertices %d..%d are exactly collinear", (i+n-1)%n, (i+1)%n))
				break
			}
		}
	}
	// idempotence
	var again Path
	if ctx.Guard(digest, "idempotence", in, func() { again = clip.TrimCollinear64(gen.ClonePath(out), isOpen) }) {
		ctx.Eval(1)
		if !pathEq(again, out) {
			fail("idempotence", fmt.Sprintf("trimming the result again gives %v", again))
		}
	}
	if len(out) >= 3 && len(out) < len(orig) {
		ctx.Nontrivial(digest)
		if ctx.WantSample() {
			ctx.Sample(map[string]any{"case": id.String(), "path": orig, "isOpen": isOpen, "result": out})
		}
	}
}
