package props

import (
	"fmt"
	"math"
	"math/big"

	clip "github.com/bolom009/go-clipper2"

	"verifharness/gen"
	"verifharness/oracle"
	"verifharness/run"
)

// C14 — geometric measures and predicates are exact.

var c14Specs = []famSpec{
	{Family: "pred-grid", FreshQ: 16, FreshT: 16},        // exhaustive micro-domain, split in 16 slices
	{Family: "pred-rand", FreshQ: 4000, FreshT: 400000},  // each case = a batch of 500 evaluations
	{Family: "pred-paths", FreshQ: 4000, FreshT: 300000}, // area / bounds / point-in-polygon on paths
}

func init() {
	register(&run.Prop{
		ID: "C14",
		Rule: "three workloads. pred-grid: ALL point triples with coordinates in [-2,2]^2 (15625 triples, exhaustive for that micro-domain, flagged exhaustive_micro) through the collinearity alias and TrimCollinear64 on the 3-point path; " +
			"pred-rand: batches of 500 random operand tuples at magnitudes up to 2^29 with planted differences 0,+-1,+-2, exact collinear triples and products straddling 2^53, for isCollinear/productsAreEqual/multiplyUInt64/segsIntersect aliases against math/big; " +
			"pred-paths: random and degenerate paths (and sets of 2..12 equally oriented rings, some filling most of the +-2^29 box, so that sums do not cancel) for Area64/AreaPaths64/IsPositive64/GetBounds64/PointInPolygon/Path2ContainsPath1-consistency against exact integer arithmetic. " +
			"Non-trivial = a batch in which both answers (true and false) of the predicate under test were expected at least once; distinct by batch content hash.",
		Assumptions: []string{"reference: math/big integer arithmetic (and the 128-bit helper, itself cross-checked against math/big in every batch)"},
		Floor:       200,
		Cases:       func(tier string, seed uint64) []run.CaseID { return buildCases(c14Specs, tier, seed) },
		RunCase:     c14Run,
	})
}

func bigCross(a, b, c Pt) *big.Int {
	x1 := new(big.Int).Sub(big.NewInt(b.X), big.NewInt(a.X))
	y2 := new(big.Int).Sub(big.NewInt(c.Y), big.NewInt(b.Y))
	y1 := new(big.Int).Sub(big.NewInt(b.Y), big.NewInt(a.Y))
	x2 := new(big.Int).Sub(big.NewInt(c.X), big.NewInt(b.X))
	return new(big.Int).Sub(new(big.Int).Mul(x1, y2), new(big.Int).Mul(y1, x2))
}

// triSignAsBuilt is the documented faulty sign function (+1 treated as 0).
func triSignAsBuilt(x int64) int {
	if x < 0 {
		return -1
	}
	if x > 1 {
		return 1
	}
	return 0
}

// collinearClass classifies a wrong collinearity answer: it returns
// "KF-trisign" only when the library's answer equals what the as-built model
// (exact magnitudes, faulty sign) predicts and differs from exact arithmetic.
func productsModelAsBuilt(a, b, c, d int64) bool {
	ab := new(big.Int).Mul(big.NewInt(a), big.NewInt(b))
	cd := new(big.Int).Mul(big.NewInt(c), big.NewInt(d))
	return ab.CmpAbs(cd) == 0 && triSignAsBuilt(a)*triSignAsBuilt(b) == triSignAsBuilt(c)*triSignAsBuilt(d)
}

func collinearArgs(p1, sh, p2 Pt) (a, b, c, d int64) {
	return sh.X - p1.X, p2.Y - sh.Y, sh.Y - p1.Y, p2.X - sh.X
}

func checkCollinear(ctx *run.Ctx, digest string, p1, sh, p2 Pt, seen *[2]bool) {
	want := bigCross(p1, sh, p2).Sign() == 0
	if want {
		seen[1] = true
	} else {
		seen[0] = true
	}
	got := clip.VerifIsCollinear(p1, sh, p2)
	ctx.Eval(1)
	if got != want {
		a, b, c, d := collinearArgs(p1, sh, p2)
		class := ""
		if productsModelAsBuilt(a, b, c, d) == got {
			class = "trisign-plus-one-as-zero"
		}
		ctx.Fail(digest, "isCollinear", class, fmt.Sprintf("isCollinear(%s,%s,%s)=%v, exact cross=%s", fmtPt(p1), fmtPt(sh), fmtPt(p2), got, bigCross(p1, sh, p2)), []Pt{p1, sh, p2})
	}
}

func hardInt(r *gen.Rng) int64 {
	switch r.Intn(8) {
	case 0:
		return r.Range(-2, 2)
	case 1:
		return r.Range(-100, 100)
	case 2:
		m := int64(1) << uint(20+r.Intn(10))
		return gen.PickOf(r, m, -m, m-1, m+1, -m+1)
	case 3:
		return r.Range(-(1 << 27), 1<<27)
	case 4:
		return r.Range(-(1 << 26), 1<<26) // products straddle 2^53
	default:
		return r.Range(-gen.MaxC, gen.MaxC)
	}
}

func hardPt(r *gen.Rng) Pt { return Pt{X: hardInt(r), Y: hardInt(r)} }

func clampC(v int64) int64 { return max(-gen.MaxC, min(gen.MaxC, v)) }

func c14Run(ctx *run.Ctx, id run.CaseID) {
	r := gen.ForCase(id.Family, id.Index, id.Stream)
	switch id.Family {
	case "pred-grid":
		c14Grid(ctx, id)
	case "pred-rand":
		c14Rand(ctx, r)
	case "pred-paths":
		c14Paths(ctx, r)
	}
}

func c14Grid(ctx *run.Ctx, id run.CaseID) {
	// slice id.Index of 16 over the first point
	var seen [2]bool
	n := 0
	for i := int(id.Index); i < 25; i += 16 {
		p1 := Pt{X: int64(i%5 - 2), Y: int64(i/5 - 2)}
		for j := 0; j < 25; j++ {
			sh := Pt{X: int64(j%5 - 2), Y: int64(j/5 - 2)}
			for k := 0; k < 25; k++ {
				p2 := Pt{X: int64(k%5 - 2), Y: int64(k/5 - 2)}
				dg := fmt.Sprintf("grid:%v%v%v", p1, sh, p2)
				checkCollinear(ctx, dg, p1, sh, p2, &seen)
				c14TrimTriple(ctx, dg, p1, sh, p2)
				n++
			}
		}
	}
	ctx.Count("grid_triples", int64(n))
	if seen[0] && seen[1] {
		ctx.NontrivialHash(run.DigestInts(int64(id.Index), 1))
		ctx.NontrivialHash(run.DigestInts(int64(id.Index), 2))
	}
	if ctx.WantSample() {
		ctx.Sample(map[string]any{"workload": "pred-grid", "slice": id.Index, "triples": n, "domain": "[-2,2]^2 x3, exhaustive"})
	}
}

// c14TrimTriple observes collinearity through TrimCollinear64 on a 3-point
// closed path: the result must be empty iff the three points are collinear
// (or not all distinct), else the 3 points.
func c14TrimTriple(ctx *run.Ctx, dg string, p1, sh, p2 Pt) {
	path := Path{p1, sh, p2}
	var out Path
	if !ctx.Guard(dg, "TrimCollinear64/3pt", path, func() { out = clip.TrimCollinear64(gen.ClonePath(path), false) }) {
		return
	}
	ctx.Eval(1)
	col := bigCross(p1, sh, p2).Sign() == 0
	if col != (len(out) == 0) || (!col && len(out) != 3) {
		a, b, c, d := collinearArgs(p1, sh, p2)
		class := ""
		// the closed-path scan tests several rotations of the triple; attribute only if some rotation is mis-answered by the as-built sign
		for _, t := range [][3]Pt{{p1, sh, p2}, {sh, p2, p1}, {p2, p1, sh}} {
			a, b, c, d = collinearArgs(t[0], t[1], t[2])
			if productsModelAsBuilt(a, b, c, d) != (bigCross(t[0], t[1], t[2]).Sign() == 0) {
				class = "trisign-plus-one-as-zero"
			}
		}
		ctx.Fail(dg, "TrimCollinear64/3pt", class, fmt.Sprintf("TrimCollinear64(%v, closed) = %v; exact collinear=%v", path, out, col), path)
	}
}

func c14Rand(ctx *run.Ctx, r *gen.Rng) {
	var seenCol, seenPE, seenSI [2]bool
	var hs []int64
	for it := 0; it < 500; it++ {
		// collinearity triple, often exactly collinear by construction
		p1 := hardPt(r)
		var sh, p2 Pt
		switch r.Intn(4) {
		case 0: // exact collinear: sh = p1 + k*v, p2 = sh + m*v (clamped to the domain by choosing small v)
			v := Pt{X: r.Range(-1000, 1000), Y: r.Range(-1000, 1000)}
			k, m := r.Range(-1000, 1000), r.Range(-1000, 1000)
			sh = Pt{X: p1.X + k*v.X, Y: p1.Y + k*v.Y}
			p2 = Pt{X: sh.X + m*v.X, Y: sh.Y + m*v.Y}
		case 1: // collinear then nudged by one unit
			v := Pt{X: r.Range(-1000, 1000), Y: r.Range(-1000, 1000)}
			k, m := r.Range(-1000, 1000), r.Range(-1000, 1000)
			sh = Pt{X: p1.X + k*v.X, Y: p1.Y + k*v.Y}
			p2 = Pt{X: sh.X + m*v.X + r.Range(-1, 1), Y: sh.Y + m*v.Y + r.Range(-1, 1)}
		case 2: // differences of exactly 0, +-1
			sh = Pt{X: p1.X + r.Range(-1, 1), Y: p1.Y + r.Range(-2, 2)}
			p2 = Pt{X: sh.X + r.Range(-2, 2), Y: sh.Y + r.Range(-1, 1)}
		default:
			sh, p2 = hardPt(r), hardPt(r)
		}
		p1 = Pt{X: clampC(p1.X), Y: clampC(p1.Y)}
		sh = Pt{X: clampC(sh.X), Y: clampC(sh.Y)}
		p2 = Pt{X: clampC(p2.X), Y: clampC(p2.Y)}
		hs = append(hs, p1.X, p1.Y, sh.X, sh.Y, p2.X, p2.Y)
		dg := fmt.Sprintf("tri:%v%v%v", p1, sh, p2)
		checkCollinear(ctx, dg, p1, sh, p2, &seenCol)
		// self-check of the 128-bit helper against math/big
		if oracle.Cross(p1, sh, p2).Big().Cmp(func() *big.Int {
			// Cross(a,b,c) = (b-a)x(c-a); bigCross is (b-a)x(c-b): equal
			return bigCross(p1, sh, p2)
		}()) != 0 {
			panic("harness self-check: 128-bit cross product disagrees with math/big")
		}

		// productsAreEqual on raw operands
		a, b := hardInt(r), hardInt(r)
		var c, d int64
		switch r.Intn(3) {
		case 0: // equal products by construction: a*b == c*d with c=b', d=a' swapped / factor moved
			c, d = b, a
			if r.Bool() && a%2 == 0 && b < gen.MaxC {
				c, d = a/2, b*2
			}
			if r.Bool() {
				c, d = -c, -d
			}
		case 1: // equal magnitude, opposite sign
			c, d = -b, a
		default:
			c, d = hardInt(r), hardInt(r)
		}
		wantPE := new(big.Int).Mul(big.NewInt(a), big.NewInt(b)).Cmp(new(big.Int).Mul(big.NewInt(c), big.NewInt(d))) == 0
		gotPE := clip.VerifProductsAreEqual(a, b, c, d)
		ctx.Eval(1)
		if wantPE {
			seenPE[1] = true
		} else {
			seenPE[0] = true
		}
		if gotPE != wantPE {
			class := ""
			if productsModelAsBuilt(a, b, c, d) == gotPE {
				class = "trisign-plus-one-as-zero"
			}
			ctx.Fail(fmt.Sprintf("pe:%d,%d,%d,%d", a, b, c, d), "productsAreEqual", class, fmt.Sprintf("productsAreEqual(%d,%d,%d,%d)=%v exact=%v", a, b, c, d, gotPE, wantPE), []int64{a, b, c, d})
		}
		// 64x64->128 multiply
		ua, ub := r.U64()>>uint(r.Intn(40)), r.U64()>>uint(r.Intn(40))
		lo, hi := clip.VerifMultiplyUInt64(ua, ub)
		pr := new(big.Int).Mul(new(big.Int).SetUint64(ua), new(big.Int).SetUint64(ub))
		wantLo := new(big.Int).And(pr, new(big.Int).SetUint64(math.MaxUint64)).Uint64()
		wantHi := new(big.Int).Rsh(pr, 64).Uint64()
		ctx.Eval(1)
		if lo != wantLo || hi != wantHi {
			ctx.Fail(fmt.Sprintf("mul:%d,%d", ua, ub), "multiplyUInt64", "", fmt.Sprintf("multiplyUInt64(%d,%d)=(%d,%d) exact=(%d,%d)", ua, ub, lo, hi, wantLo, wantHi), []uint64{ua, ub})
		}
		// segsIntersect (both modes) on small/structured segments
		s1a, s1b, s2a, s2b := hardPt(r), hardPt(r), hardPt(r), hardPt(r)
		if r.Chance(0.5) { // structured: share endpoints / touch
			R := gen.PickOf(r, int64(3), 10, 1000, 1<<28)
			q := func() Pt { return Pt{X: r.Range(-R, R), Y: r.Range(-R, R)} }
			s1a, s1b, s2a, s2b = q(), q(), q(), q()
			switch r.Intn(4) {
			case 0:
				s2a = s1a
			case 1:
				s2a = Pt{X: (s1a.X + s1b.X) / 2, Y: (s1a.Y + s1b.Y) / 2}
			}
		}
		for _, incl := range []bool{false, true} {
			got := clip.VerifSegsIntersect(s1a, s1b, s2a, s2b, incl)
			d1 := oracle.CrossSign(s2a, s2b, s1a)
			d2 := oracle.CrossSign(s2a, s2b, s1b)
			d3 := oracle.CrossSign(s1a, s1b, s2a)
			d4 := oracle.CrossSign(s1a, s1b, s2b)
			var want bool
			if !incl {
				want = d1*d2 < 0 && d3*d4 < 0
			} else {
				want = d1*d2 <= 0 && d3*d4 <= 0 && (d1 != 0 || d2 != 0 || d3 != 0 || d4 != 0)
			}
			ctx.Eval(1)
			if want {
				seenSI[1] = true
			} else {
				seenSI[0] = true
			}
			if got != want {
				ctx.Fail(fmt.Sprintf("si:%v%v%v%v", s1a, s1b, s2a, s2b), fmt.Sprintf("segsIntersect/inclusive=%v", incl), "",
					fmt.Sprintf("segsIntersect(%v,%v,%v,%v,%v)=%v exact=%v", s1a, s1b, s2a, s2b, incl, got, want), []Pt{s1a, s1b, s2a, s2b})
			}
		}
	}
	if seenCol[0] && seenCol[1] && seenPE[0] && seenPE[1] && seenSI[0] && seenSI[1] {
		ctx.NontrivialHash(run.DigestInts(hs...))
	}
	if ctx.WantSample() {
		ctx.Sample(map[string]any{"workload": "pred-rand", "first_triple": hs[:6], "batch": 500})
	}
}

// exactPIP classifies p against polygon (even-odd), exactly.
func exactPIP(p Pt, poly Path) clip.PointInPolygonResult {
	n := len(poly)
	if n < 3 {
		return clip.IsOutside
	}
	cross := 0
	for i := 0; i < n; i++ {
		a, b := poly[i], poly[(i+1)%n]
		if oracle.OnSegment(p, a, b) {
			return clip.IsOn
		}
		if (a.Y <= p.Y) != (b.Y <= p.Y) {
			// edge straddles the horizontal through p (half-open): which side is p?
			s := oracle.CrossSign(a, b, p)
			if b.Y < a.Y {
				s = -s
			}
			if s > 0 { // p strictly left of the upward edge -> ray to the right crosses
				cross++
			}
		}
	}
	if cross&1 == 1 {
		return clip.IsInside
	}
	return clip.IsOutside
}

func pipName(r clip.PointInPolygonResult) string {
	switch r {
	case clip.IsOn:
		return "IsOn"
	case clip.IsInside:
		return "IsInside"
	}
	return "IsOutside"
}

func c14Paths(ctx *run.Ctx, r *gen.Rng) {
	R := gen.PickOf(r, int64(3), 8, 50, 1000, 1<<20, 1<<26, gen.MaxC)
	n := 3 + r.Intn(8)
	if r.Chance(0.1) {
		n = r.Intn(3)
	}
	path := make(Path, n)
	for i := range path {
		path[i] = Pt{X: r.Range(-R, R), Y: r.Range(-R, R)}
		if i > 0 && r.Chance(0.2) { // horizontal / vertical / duplicate runs
			switch r.Intn(3) {
			case 0:
				path[i].Y = path[i-1].Y
			case 1:
				path[i].X = path[i-1].X
			default:
				path[i] = path[i-1]
			}
		}
	}
	dg := run.Digest(path)
	orig := gen.ClonePath(path)
	// Area64 / IsPositive64
	a2 := oracle.Area2(path)
	wantArea, _ := new(big.Float).SetPrec(200).Quo(new(big.Float).SetPrec(200).SetInt(a2.Big()), big.NewFloat(2)).Float64()
	var gotArea float64
	var gotPos bool
	if ctx.Guard(dg, "Area64", path, func() { gotArea = clip.Area64(path); gotPos = clip.IsPositive64(path) }) {
		ctx.Eval(2)
		if gotArea != wantArea && math.Abs(gotArea-wantArea) > math.Abs(wantArea)*1.2e-16 {
			ctx.Fail(dg, "Area64", "", fmt.Sprintf("Area64=%v exact=%v path=%v", gotArea, wantArea, path), path)
		}
		if gotPos != (a2.Sign() >= 0) {
			ctx.Fail(dg, "IsPositive64", "", fmt.Sprintf("IsPositive64=%v exact area2 sign=%d path=%v", gotPos, a2.Sign(), path), path)
		}
	}
	// AreaPaths64 over a few paths
	other := Path{{X: r.Range(-R, R), Y: r.Range(-R, R)}, {X: r.Range(-R, R), Y: r.Range(-R, R)}, {X: r.Range(-R, R), Y: r.Range(-R, R)}}
	set := Paths{path, other, gen.Reverse(path)}
	var gotSet float64
	if ctx.Guard(dg, "AreaPaths64", set, func() { gotSet = clip.AreaPaths64(set) }) {
		ctx.Eval(1)
		w1, _ := new(big.Float).Quo(new(big.Float).SetInt(oracle.Area2(other).Big()), big.NewFloat(2)).Float64()
		// area(path) + area(other) + area(reverse(path)) = area(other) up to float summation
		if math.Abs(gotSet-w1) > (math.Abs(wantArea)*2+math.Abs(w1))*4e-16 {
			ctx.Fail(dg, "AreaPaths64", "", fmt.Sprintf("AreaPaths64=%v expected %v (path + other + reversed path)", gotSet, w1), set)
		}
	}
	// AreaPaths64 over many paths of ONE orientation (nothing cancels: the sum of the doubled areas can pass 2^63)
	{
		k := 2 + r.Intn(11)
		many := make(Paths, 0, k)
		sum := new(big.Int)
		absSum := 0.0
		for i := 0; i < k; i++ {
			q := path
			if i%3 == 2 {
				q = other
			}
			if r.Chance(0.4) { // a ring that fills most of the coordinate box
				q = gen.Box(-R+r.Range(0, R/8), -R+r.Range(0, R/8), R-r.Range(0, R/8), R-r.Range(0, R/8), true)
			}
			if oracle.Area2(q).Sign() < 0 {
				q = gen.Reverse(q)
			}
			many = append(many, q)
			sum.Add(sum, oracle.Area2(q).Big())
			absSum += math.Abs(oracle.Area2(q).Float()) / 2
		}
		var got float64
		if ctx.Guard(dg, "AreaPaths64/many", many, func() { got = clip.AreaPaths64(many) }) {
			ctx.Eval(1)
			want, _ := new(big.Float).SetPrec(200).Quo(new(big.Float).SetPrec(200).SetInt(sum), big.NewFloat(2)).Float64()
			if math.Abs(got-want) > absSum*float64(k)*3e-16 {
				ctx.Fail(dg, "AreaPaths64/many", "", fmt.Sprintf("AreaPaths64 of %d equally oriented paths = %v, exact %v", k, got, want), many)
			}
		}
	}
	// GetBounds64
	var rect clip.Rect64
	if ctx.Guard(dg, "GetBounds64", path, func() { rect = clip.GetBounds64(path) }) {
		ctx.Eval(1)
		l, t, rr, b := clip.VerifRectFields(rect)
		x0, y0, x1, y1, ok := oracle.Bounds(Paths{path})
		if !ok {
			x0, y0, x1, y1 = 0, 0, 0, 0
		}
		if l != x0 || t != y0 || rr != x1 || b != y1 {
			ctx.Fail(dg, "GetBounds64", "", fmt.Sprintf("GetBounds64=(l=%d t=%d r=%d b=%d) exact=(%d %d %d %d) path=%v", l, t, rr, b, x0, y0, x1, y1, path), path)
		}
	}
	// PointInPolygon at hard points: vertices, edge midpoints, same-row points, random
	flat := true
	for _, q := range path {
		if q.Y != path[0].Y {
			flat = false
		}
	}
	var res [3]bool
	if !flat && len(path) >= 3 {
		var probes []Pt
		for i, q := range path {
			nx := path[(i+1)%len(path)]
			probes = append(probes, q, Pt{X: (q.X + nx.X) / 2, Y: (q.Y + nx.Y) / 2}, Pt{X: q.X + r.Range(-2, 2), Y: q.Y}, Pt{X: r.Range(-R, R), Y: q.Y})
		}
		for i := 0; i < 12; i++ {
			probes = append(probes, Pt{X: r.Range(-R-1, R+1), Y: r.Range(-R-1, R+1)})
		}
		for _, p := range probes {
			var got clip.PointInPolygonResult
			if !ctx.Guard(dg, "PointInPolygon", path, func() { got = clip.PointInPolygon(p, path) }) {
				break
			}
			ctx.Eval(1)
			want := exactPIP(p, path)
			res[want] = true
			if got != want {
				ctx.Fail(dg, "PointInPolygon", "", fmt.Sprintf("PointInPolygon(%s)=%s exact=%s polygon=%v", fmtPt(p), pipName(got), pipName(want), path), map[string]any{"pt": p, "polygon": path})
				break
			}
		}
	}
	for i := range path {
		if path[i] != orig[i] {
			ctx.Fail(dg, "input-mutated", "", "a measure function modified its input path", orig)
			break
		}
	}
	if res[0] && res[1] && res[2] {
		ctx.Nontrivial(dg)
	}
	if ctx.WantSample() && len(path) >= 3 {
		ctx.Sample(map[string]any{"workload": "pred-paths", "path": path})
	}
}
