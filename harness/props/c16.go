package props

import (
	"fmt"
	"math"

	clip "github.com/bolom009/go-clipper2"

	"verifharness/gen"
	"verifharness/oracle"
	"verifharness/run"
)

// C16 — SimplifyPath removes only near-collinear vertices and stops when none is left.

var c16Specs = []famSpec{
	{Family: "simp-zigzag", FreshQ: 20000, FreshT: 2000000},
	{Family: "simp-chain", FreshQ: 20000, FreshT: 2000000},
	{Family: "simp-rand", FreshQ: 20000, FreshT: 2000000},
	{Family: "simp-float", FreshQ: 10000, FreshT: 1000000},
	{Family: "simp-long", FreshQ: 400, FreshT: 20000},
}

func init() {
	register(&run.Prop{
		ID: "C16",
		Rule: "case = path + epsilon + closed flag. simp-zigzag: zig-zags of amplitude around epsilon; simp-chain: near-collinear chains (exactly collinear runs, +-1 nudges) at magnitudes 10..2^29 including closed wrap-around; simp-rand: random paths; simp-float: SimplifyPathD/PathsD (incl. scaling path and epsilon by 2^-40..2^20); simp-long: noisy closed curves of 200..3000 vertices with planted exact mid-points (cases run one after another in a worker process, so state kept between calls on long paths is exercised). " +
			"Checked: output is a subsequence; open ends kept; < 4 points returned as is; no retained vertex with exact perpendicular distance (128-bit cross^2 vs eps^2*len^2) clearly below epsilon from the line through its retained neighbours while > 2 remain; " +
			"epsilon 0 keeps the exact closed area; retained index set invariant under translation and under scaling path and epsilon by 2^k; Paths variants equal per-path calls. " +
			"Non-trivial = at least one vertex removed and at least 3 kept; distinct by input digest.",
		Assumptions: []string{"the library evaluates distances in float64: a retained vertex is reported only if its exact distance is below epsilon by more than the float evaluation error (relative 1e-6 + absolute 2^-20 of the coordinate magnitude... see DESIGN §8 C16)"},
		Floor:       1000,
		Cases:       func(tier string, seed uint64) []run.CaseID { return buildCases(c16Specs, tier, seed) },
		RunCase:     c16Run,
	})
}

func simpInput(id run.CaseID) (Path, float64, bool) {
	r := gen.ForCase(id.Family, id.Index, id.Stream)
	closed := r.Bool()
	var p Path
	var eps float64
	switch id.Family {
	case "simp-zigzag":
		R := gen.PickOf(r, int64(100), 10000, 1<<22, 1<<27)
		eps = gen.PickOf(r, 0, 0.5, 1, 2, 5, 25, float64(R)/50)
		n := 4 + r.Intn(12)
		x, y := r.Range(-R, R/2), r.Range(-R/2, R/2)
		step := max(R/int64(n)/2, 3)
		for i := 0; i < n; i++ {
			amp := int64(eps * r.FloatRange(0, 2.5))
			if i%2 == 1 {
				amp = -amp
			}
			p = append(p, Pt{X: x, Y: y + amp})
			x += step/2 + r.Range(0, step)
		}
		if r.Bool() { // rotate by 90°
			for i := range p {
				p[i] = Pt{X: -p[i].Y, Y: p[i].X}
			}
		}
	case "simp-chain":
		R := gen.PickOf(r, int64(10), 1000, 1<<20, 1<<26, 1<<28)
		eps = gen.PickOf(r, 0, 0, 0.4, 1, 3, float64(R)/1000)
		n := 4 + r.Intn(10)
		cur := Pt{X: r.Range(-R/2, R/2), Y: r.Range(-R/2, R/2)}
		p = append(p, cur)
		for len(p) < n {
			if r.Chance(0.7) {
				v := Pt{X: r.Range(-R/64-1, R/64+1), Y: r.Range(-R/64-1, R/64+1)}
				for k := 0; k < 1+r.Intn(3); k++ {
					t := r.Range(1, 8)
					cur = Pt{X: clampC(cur.X + t*v.X), Y: clampC(cur.Y + t*v.Y)}
					q := cur
					if r.Chance(0.3) {
						q = Pt{X: cur.X + r.Range(-1, 1), Y: cur.Y + r.Range(-1, 1)}
					}
					p = append(p, q)
				}
			} else {
				cur = Pt{X: r.Range(-R, R), Y: r.Range(-R, R)}
				p = append(p, cur)
			}
		}
		if r.Chance(0.4) {
			k := r.Intn(len(p))
			p = append(append(Path{}, p[k:]...), p[:k]...)
		}
	case "simp-long": // 200..3000 vertices: a noisy closed curve with planted exact mid-points (also as the very last vertex)
		R := gen.PickOf(r, int64(20000), 1<<20, 1<<27)
		eps = gen.PickOf(r, 0, 0, 0.5, 2, float64(R)/5000, float64(R)/300)
		s, _ := gen.BigNR(r, 200, 3000, []int64{R})
		base := s[0]
		for i, v := range base {
			p = append(p, v)
			nx := base[(i+1)%len(base)]
			if r.Chance(0.15) && (v.X+nx.X)%2 == 0 && (v.Y+nx.Y)%2 == 0 {
				p = append(p, Pt{X: (v.X + nx.X) / 2, Y: (v.Y + nx.Y) / 2})
			}
		}
		if r.Chance(0.3) { // make the last vertex the exact mid-point of its neighbours
			a, b := p[len(p)-1], p[0]
			if (a.X+b.X)%2 == 0 && (a.Y+b.Y)%2 == 0 {
				p = append(p, Pt{X: (a.X + b.X) / 2, Y: (a.Y + b.Y) / 2})
			}
		}
	default:
		R := gen.PickOf(r, int64(20), 1000, 1<<20, 1<<28)
		eps = gen.PickOf(r, 0, 1, float64(R)/100, float64(R)/10, float64(R))
		n := 2 + r.Intn(12)
		p = gen.RandPaths(r, 1, max(n, 3), R)[0]
		if r.Chance(0.1) {
			p = p[:min(len(p), 1+r.Intn(3))]
		}
	}
	return p, eps, closed
}

// perpSqExactLE reports whether dist(pt, line(l1,l2))^2 <= bound^2 * f, judged
// from the exact cross product (float rounding only in the final comparison).
func perpDist(pt, l1, l2 Pt) float64 {
	if l1 == l2 {
		return 0
	}
	cr := oracle.Cross(l1, l2, pt).Float()
	dx, dy := float64(l2.X-l1.X), float64(l2.Y-l1.Y)
	return math.Abs(cr) / math.Sqrt(dx*dx+dy*dy)
}

func retainedIdx(in, out Path) ([]int, bool) {
	idx := make([]int, 0, len(out))
	j := 0
	for i := range in {
		if j < len(out) && in[i] == out[j] {
			idx = append(idx, i)
			j++
		}
	}
	return idx, j == len(out)
}

// matchIdx recovers the retained indices assuming the output is the input
// filtered by a flag array; with duplicate points several index sets explain
// the same output, so comparisons between runs use the point sequences.
func c16Run(ctx *run.Ctx, id run.CaseID) {
	if id.Family == "simp-float" {
		c16Float(ctx, id)
		return
	}
	path, eps, closed := simpInput(id)
	in := map[string]any{"path": path, "epsilon": eps, "closed": closed}
	digest := run.Digest(in)
	orig := gen.ClonePath(path)
	var out Path
	if !ctx.Guard(digest, "SimplifyPath64", in, func() { out = clip.SimplifyPath64(path, eps, closed) }) {
		return
	}
	ctx.Eval(1)
	fail := func(sub, detail string) {
		ctx.Fail(digest, sub, "", fmt.Sprintf("%s; SimplifyPath64(%v, eps=%v, closed=%v) = %v", detail, orig, eps, closed, out), in)
	}
	for i := range orig {
		if path[i] != orig[i] {
			fail("input-mutated", "input modified")
			break
		}
	}
	if len(orig) < 4 {
		if !pathEq(out, orig) {
			fail("short-path", "path with < 4 points not returned as is")
		}
		return
	}
	if _, ok := retainedIdx(orig, out); !ok {
		fail("subsequence", "output is not a subsequence of the input")
		return
	}
	if !closed && (len(out) < 2 || out[0] != orig[0] || out[len(out)-1] != orig[len(orig)-1]) {
		fail("open-ends", "open path end points not kept")
	}
	// no retained vertex clearly within eps of the line through its retained neighbours
	n := len(out)
	if n > 2 {
		mag := float64(gen.MaxAbs(Paths{orig}))
		tol := eps*1e-6 + mag*math.Exp2(-22) + 1e-9
		for i := 0; i < n; i++ {
			if !closed && (i == 0 || i == n-1) {
				continue
			}
			d := perpDist(out[i], out[(i+n-1)%n], out[(i+1)%n])
			ctx.Count("distances_checked", 1)
			if d+tol < eps || (eps == 0 && d == 0) {
				fail("residual-near-collinear", fmt.Sprintf("retained vertex %d %s is %.9g from the line through its retained neighbours (epsilon %v)", i, fmtPt(out[i]), d, eps))
				break
			}
		}
	}
	if eps == 0 && closed {
		if oracle.Area2(out).Cmp(oracle.Area2(orig)) != 0 {
			fail("eps0-area", fmt.Sprintf("epsilon 0 changed the exact area: 2A(in)=%s 2A(out)=%s", oracle.Area2(orig).Big(), oracle.Area2(out).Big()))
		}
	}
	// translation / scaling invariance of the retained point sequence
	r := gen.ForCase(id.Family+"#tx", id.Index, id.Stream)
	mx := gen.MaxAbs(Paths{orig})
	if mx < gen.MaxC {
		room := gen.MaxC - mx
		dx, dy := r.Range(-room, room), r.Range(-room, room)
		tp := gen.Translate(Paths{orig}, dx, dy)[0]
		var tout Path
		if ctx.Guard(digest, "translate", in, func() { tout = clip.SimplifyPath64(tp, eps, closed) }) {
			ctx.Eval(1)
			back := gen.Translate(Paths{tout}, -dx, -dy)[0]
			if !pathEq(back, out) {
				fail("translation-invariance", fmt.Sprintf("translated by (%d,%d) the retained vertices are %v", dx, dy, back))
			}
		}
		k := uint(0)
		for (mx<<(k+1)) <= gen.MaxC && k < 28 {
			k++
		}
		if k > 0 {
			k = uint(1 + r.Intn(int(k)))
			sp := gen.ScaleInt(Paths{orig}, 1<<k)[0]
			var sout Path
			if ctx.Guard(digest, "scale", in, func() { sout = clip.SimplifyPath64(sp, eps*float64(int64(1)<<k), closed) }) {
				ctx.Eval(1)
				ok := len(sout) == len(out)
				for i := 0; ok && i < len(out); i++ {
					ok = sout[i].X == out[i].X<<k && sout[i].Y == out[i].Y<<k
				}
				if !ok {
					fail("scale-invariance", fmt.Sprintf("scaled by 2^%d (path and epsilon) the retained vertices are %v", k, sout))
				}
			}
		}
	}
	// Paths variant
	other := gen.Reverse(orig)
	var outs Paths
	if ctx.Guard(digest, "SimplifyPaths64", in, func() { outs = clip.SimplifyPaths64(Paths{orig, other, orig[:2]}, eps, closed) }) {
		ctx.Eval(1)
		exp2 := clip.SimplifyPath64(other, eps, closed)
		if len(outs) != 3 || !pathEq(outs[0], out) || !pathEq(outs[1], exp2) || !pathEq(outs[2], orig[:2]) {
			fail("paths-variant", fmt.Sprintf("SimplifyPaths64 differs from per-path calls: %v", outs))
		}
	}
	if len(out) >= 3 && len(out) < len(orig) {
		ctx.Nontrivial(digest)
		if ctx.WantSample() {
			ctx.Sample(map[string]any{"case": id.String(), "path": orig, "epsilon": eps, "closed": closed, "result": out})
		}
	}
}

func c16Float(ctx *run.Ctx, id run.CaseID) {
	r := gen.ForCase(id.Family, id.Index, id.Stream)
	closed := r.Bool()
	R := gen.PickOf(r, 1.0, 100.0, 1e6)
	eps := gen.PickOf(r, 0, 0.01, 0.5, R/100, R/5)
	n := 2 + r.Intn(12)
	path := make(clip.PathD, n)
	for i := range path {
		path[i] = clip.PointD{X: r.FloatRange(-R, R), Y: r.FloatRange(-R, R)}
		if i >= 2 && r.Chance(0.4) { // near-collinear continuation
			t := r.FloatRange(0.2, 2)
			path[i] = clip.PointD{X: path[i-1].X + t*(path[i-1].X-path[i-2].X) + eps*r.FloatRange(-1.5, 1.5), Y: path[i-1].Y + t*(path[i-1].Y-path[i-2].Y)}
		}
		if r.Chance(0.3) {
			path[i].X = math.Round(path[i].X)
			path[i].Y = math.Round(path[i].Y)
		}
	}
	in := map[string]any{"pathD": path, "epsilon": eps, "closed": closed}
	digest := run.Digest(in)
	orig := append(clip.PathD{}, path...)
	var out clip.PathD
	if !ctx.Guard(digest, "SimplifyPathD", in, func() { out = clip.SimplifyPathD(path, eps, closed) }) {
		return
	}
	ctx.Eval(1)
	fail := func(sub, detail string) {
		ctx.Fail(digest, sub, "", fmt.Sprintf("%s; SimplifyPathD(%v, eps=%v, closed=%v) = %v", detail, orig, eps, closed, out), in)
	}
	eq := func(a, b clip.PathD) bool {
		if len(a) != len(b) {
			return false
		}
		for i := range a {
			if a[i] != b[i] {
				return false
			}
		}
		return true
	}
	if !eq(path, orig) {
		fail("input-mutated", "input modified")
	}
	if len(orig) < 4 {
		if !eq(out, orig) {
			fail("short-path", "path with < 4 points not returned as is")
		}
		return
	}
	j := 0
	for i := range orig {
		if j < len(out) && orig[i] == out[j] {
			j++
		}
	}
	if j != len(out) {
		fail("subsequence", "output is not a subsequence of the input")
		return
	}
	if !closed && (len(out) < 2 || out[0] != orig[0] || out[len(out)-1] != orig[len(orig)-1]) {
		fail("open-ends", "open path end points not kept")
	}
	m := len(out)
	if m > 2 {
		for i := 0; i < m; i++ {
			if !closed && (i == 0 || i == m-1) {
				continue
			}
			a, b, c := out[(i+m-1)%m], out[i], out[(i+1)%m]
			dx, dy := c.X-a.X, c.Y-a.Y
			var d float64
			if dx != 0 || dy != 0 {
				d = math.Abs((b.X-a.X)*dy-(b.Y-a.Y)*dx) / math.Hypot(dx, dy)
			}
			ctx.Count("distances_checked", 1)
			if d+eps*1e-6+R*1e-9 < eps {
				fail("residual-near-collinear", fmt.Sprintf("retained vertex %d is %.9g from the line through its retained neighbours (epsilon %v)", i, d, eps))
				break
			}
		}
	}
	// scaling path and epsilon by the same power of two (exact in float64) must not change which vertices are kept
	{
		k := gen.PickOf(r, -40, -24, -10, 7, 20)
		f := math.Ldexp(1, k)
		sp := make(clip.PathD, len(orig))
		for i, v := range orig {
			sp[i] = clip.PointD{X: v.X * f, Y: v.Y * f}
		}
		var so clip.PathD
		if ctx.Guard(digest, "SimplifyPathD/scaled", in, func() { so = clip.SimplifyPathD(sp, eps*f, closed) }) {
			ctx.Eval(1)
			same := len(so) == len(out)
			for i := 0; same && i < len(out); i++ {
				same = so[i].X == out[i].X*f && so[i].Y == out[i].Y*f
			}
			if !same {
				fail("scale-invariance", fmt.Sprintf("scaling path and epsilon by 2^%d changes the retained vertices: %v", k, so))
			}
		}
	}
	var outs clip.PathsD
	if ctx.Guard(digest, "SimplifyPathsD", in, func() { outs = clip.SimplifyPathsD(clip.PathsD{orig, orig[:3]}, eps, closed) }) {
		ctx.Eval(1)
		if len(outs) != 2 || !eq(outs[0], out) || !eq(outs[1], orig[:3]) {
			fail("paths-variant", fmt.Sprintf("SimplifyPathsD differs from per-path calls: %v", outs))
		}
	}
	if len(out) >= 3 && len(out) < len(orig) {
		ctx.Nontrivial(digest)
	}
}
