// Package gen builds the workloads: a splitmix64 stream per case, seeded from a
// hash of (family, index, stream seed), and the generator families of DESIGN §3.2.
package gen

import (
	"hash/fnv"
	"math"
)

type Rng struct{ s uint64 }

func New(seed uint64) *Rng { return &Rng{s: seed} }

// ForCase derives the stream of one case.
func ForCase(family string, index uint64, stream uint64) *Rng {
	h := fnv.New64a()
	h.Write([]byte(family))
	var b [16]byte
	for i := 0; i < 8; i++ {
		b[i] = byte(index >> (8 * i))
		b[8+i] = byte(stream >> (8 * i))
	}
	h.Write(b[:])
	r := New(h.Sum64())
	r.U64()
	return r
}

func (r *Rng) U64() uint64 {
	r.s += 0x9e3779b97f4a7c15
	z := r.s
	z = (z ^ (z >> 30)) * 0xbf58476d1ce4e5b9
	z = (z ^ (z >> 27)) * 0x94d049bb133111eb
	return z ^ (z >> 31)
}

// Intn returns a value in [0,n).
func (r *Rng) Intn(n int) int {
	if n <= 1 {
		return 0
	}
	return int(r.U64() % uint64(n))
}

// Range returns a value in [lo,hi] inclusive.
func (r *Rng) Range(lo, hi int64) int64 {
	if hi <= lo {
		return lo
	}
	span := uint64(hi-lo) + 1
	if span == 0 {
		return int64(r.U64())
	}
	return lo + int64(r.U64()%span)
}

func (r *Rng) Bool() bool { return r.U64()&1 == 1 }

// Chance returns true with probability p.
func (r *Rng) Chance(p float64) bool { return r.Float() < p }

// Float in [0,1).
func (r *Rng) Float() float64 { return float64(r.U64()>>11) / (1 << 53) }

// FloatRange in [lo,hi).
func (r *Rng) FloatRange(lo, hi float64) float64 { return lo + (hi-lo)*r.Float() }

// Norm returns an approximately normal value (sum of uniforms).
func (r *Rng) Norm() float64 {
	s := 0.0
	for i := 0; i < 6; i++ {
		s += r.Float()
	}
	return (s - 3) / math.Sqrt(0.5)
}

func PickOf[T any](r *Rng, xs ...T) T { return xs[r.Intn(len(xs))] }

// Perm returns a random permutation of 0..n-1.
func (r *Rng) Perm(n int) []int {
	p := make([]int, n)
	for i := range p {
		p[i] = i
	}
	for i := n - 1; i > 0; i-- {
		j := r.Intn(i + 1)
		p[i], p[j] = p[j], p[i]
	}
	return p
}
