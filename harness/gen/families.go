package gen

import (
	"math"
	"sort"

	clip "github.com/bolom009/go-clipper2"
)

type Pt = clip.Point64
type Path = clip.Path64
type Paths = clip.Paths64

// MaxC is the coordinate bound of the C01 domain.
const MaxC = int64(1) << 29

var DenseR = []int64{3, 6, 12, 30, 100, 300, 1000}
var WideR = []int64{10000, 1000000, 1 << 20, 1 << 26, 1 << 29}

// RandPaths: k random paths of 3..maxV random vertices in [-R,R]^2.
func RandPaths(r *Rng, k int, maxV int, R int64) Paths {
	ps := make(Paths, k)
	for i := range ps {
		n := 3 + r.Intn(maxV-2)
		p := make(Path, n)
		for j := range p {
			p[j] = Pt{X: r.Range(-R, R), Y: r.Range(-R, R)}
		}
		ps[i] = p
	}
	return ps
}

// RandDense: heavily self-intersecting small-coordinate sets.
func RandDense(r *Rng) (subj, clp Paths, R int64) {
	R = PickOf(r, DenseR...)
	subj = RandPaths(r, 1+r.Intn(3), 9, R)
	clp = RandPaths(r, r.Intn(3), 9, R)
	return
}

// RandWideR is RandWide with the magnitude drawn from rs.
func RandWideR(r *Rng, rs []int64) (subj, clp Paths, R int64) {
	R = PickOf(r, rs...)
	subj = RandPaths(r, 1+r.Intn(3), 9, R)
	clp = RandPaths(r, r.Intn(3), 9, R)
	return
}

// RandWide: generic position, large coordinates.
func RandWide(r *Rng) (subj, clp Paths, R int64) {
	R = PickOf(r, WideR...)
	subj = RandPaths(r, 1+r.Intn(3), 9, R)
	clp = RandPaths(r, r.Intn(3), 9, R)
	return
}

// Lattice: vertices on an m x m lattice scaled by s and shifted; exact collinear
// overlaps, shared vertices, T-junctions, coincident edges.
func Lattice(r *Rng) (subj, clp Paths, scale int64) {
	m := int64(4 + r.Intn(5))
	scale = PickOf(r, int64(1), 7, 1000, 1<<20)
	if scale == 1 {
		scale = PickOf(r, int64(1), 2, 3, 5)
	}
	ox := r.Range(-3, 3) * scale
	oy := r.Range(-3, 3) * scale
	mk := func(k int) Paths {
		ps := make(Paths, k)
		for i := range ps {
			n := 3 + r.Intn(6)
			p := make(Path, n)
			for j := range p {
				p[j] = Pt{X: ox + r.Range(0, m)*scale, Y: oy + r.Range(0, m)*scale}
			}
			ps[i] = p
		}
		return ps
	}
	subj = mk(1 + r.Intn(3))
	clp = mk(r.Intn(3))
	return
}

// Box returns an axis-aligned box path; ccw chooses orientation.
func Box(x0, y0, x1, y1 int64, ccw bool) Path {
	p := Path{{X: x0, Y: y0}, {X: x1, Y: y0}, {X: x1, Y: y1}, {X: x0, Y: y1}}
	if !ccw {
		p[1], p[3] = p[3], p[1]
	}
	return p
}

// Rectilinear: unions of random axis-aligned boxes (all intersections exact).
func Rectilinear(r *Rng) (subj, clp Paths, scale int64) {
	scale = PickOf(r, int64(1), 3, 10, 1000, 1<<16)
	m := int64(6 + r.Intn(10))
	mk := func(k int) Paths {
		ps := make(Paths, 0, k)
		for i := 0; i < k; i++ {
			x0 := r.Range(0, m-1)
			y0 := r.Range(0, m-1)
			x1 := r.Range(x0+1, m)
			y1 := r.Range(y0+1, m)
			ps = append(ps, Box(x0*scale, y0*scale, x1*scale, y1*scale, r.Chance(0.7)))
		}
		return ps
	}
	subj = mk(1 + r.Intn(5))
	clp = mk(r.Intn(5))
	return
}

// StarPoly: star-shaped polygon with n vertices about (cx,cy), radii within
// [rmin,rmax]; ccw orientation when ccw. Vertices are at strictly increasing
// angles so the polygon is simple as long as rmin is large enough for rounding.
func StarPoly(r *Rng, cx, cy int64, rmin, rmax float64, n int, ccw bool) Path {
	angs := make([]float64, n)
	base := r.Float() * 2 * math.Pi
	for i := range angs {
		angs[i] = base + (float64(i)+0.15+0.7*r.Float())*2*math.Pi/float64(n)
	}
	p := make(Path, 0, n)
	for _, a := range angs {
		rad := rmin + (rmax-rmin)*r.Float()
		pt := Pt{X: cx + int64(math.Round(rad*math.Cos(a))), Y: cy + int64(math.Round(rad*math.Sin(a)))}
		if len(p) > 0 && p[len(p)-1] == pt {
			continue
		}
		p = append(p, pt)
	}
	if len(p) > 1 && p[0] == p[len(p)-1] {
		p = p[:len(p)-1]
	}
	if !ccw {
		for i, j := 0, len(p)-1; i < j; i, j = i+1, j-1 {
			p[i], p[j] = p[j], p[i]
		}
	}
	return p
}

// Nested builds clusters of concentric star polygons: ring i lives in the
// annulus [0.72,0.95]*R_i and R_{i+1} is chosen inside the inscribed circle of
// ring i, so rings nest strictly and never touch. Orientation alternates (outer ccw, hole cw, island ccw ...) when
// alt is true, else every ring has random orientation. Returned rings are in
// outer-to-inner order per cluster; depth[i] is the nesting depth of ring i.
func Nested(r *Rng, clusters int, maxDepth int, R float64, alt bool, flip bool) (ps Paths, depth []int) {
	return NestedMin(r, clusters, maxDepth, R, alt, flip, 12)
}

// NestedMin is Nested with an explicit smallest ring radius.
func NestedMin(r *Rng, clusters int, maxDepth int, R float64, alt bool, flip bool, minRad float64) (ps Paths, depth []int) {
	for c := 0; c < clusters; c++ {
		cx := int64(c) * int64(2.5*R)
		cy := int64(r.Range(-1, 1)) * int64(R/3)
		d := 1 + r.Intn(maxDepth)
		rad := R
		for k := 0; k < d; k++ {
			if rad < minRad {
				break
			}
			ccw := true
			if alt {
				ccw = k%2 == 0
			} else {
				ccw = r.Bool()
			}
			if flip {
				ccw = !ccw
			}
			n := 3 + r.Intn(10)
			if k+1 < d && n < 5 {
				n = 5 + r.Intn(8) // a ring that holds further rings needs enough vertices to leave room inside
			}
			p := StarPoly(r, cx, cy, 0.72*rad, 0.95*rad, n, ccw)
			if len(p) >= 3 {
				ps = append(ps, p)
				depth = append(depth, k)
			}
			// the chords of this ring stay at least 0.72*rad*cos(1.7*pi/n) from the centre
			// (consecutive angles differ by at most 1.7*2pi/n): the next ring must fit inside that
			rad = 0.9 * 0.72 * rad * math.Cos(1.7*math.Pi/float64(n)) / 0.95
		}
	}
	return
}

// Comb: a simple comb/zig-zag polygon (many horizontals and verticals).
func Comb(r *Rng, x0, y0 int64, teeth int, w, h int64, ccw bool) Path {
	p := Path{{X: x0, Y: y0}}
	x := x0
	for i := 0; i < teeth; i++ {
		th := h/2 + r.Range(0, h/2)
		p = append(p, Pt{X: x, Y: y0 + th}, Pt{X: x + w, Y: y0 + th}, Pt{X: x + w, Y: y0 + h/4}, Pt{X: x + 2*w, Y: y0 + h/4})
		x += 2 * w
	}
	p = append(p, Pt{X: x, Y: y0})
	// currently clockwise in Y-up? compute orientation and fix
	if (area2(p) > 0) != ccw {
		for i, j := 0, len(p)-1; i < j; i, j = i+1, j-1 {
			p[i], p[j] = p[j], p[i]
		}
	}
	return p
}

func area2(p Path) float64 {
	s := 0.0
	n := len(p)
	for i := range p {
		a, b := p[i], p[(i+1)%n]
		s += float64(a.X)*float64(b.Y) - float64(b.X)*float64(a.Y)
	}
	return s
}

// Degenerate path sets: empty, points, collinear, flat, spikes, duplicates.
func Degenerate(r *Rng) (subj, clp Paths) {
	return DegenerateR(r, []int64{2, 5, 20, 1000, 1 << 28})
}

// DegenerateR is Degenerate with the magnitude drawn from rs.
func DegenerateR(r *Rng, rs []int64) (subj, clp Paths) {
	R := PickOf(r, rs...)
	one := func() Path {
		switch r.Intn(12) {
		case 0:
			return Path{}
		case 1:
			return nil
		case 2:
			return Path{{X: r.Range(-R, R), Y: r.Range(-R, R)}}
		case 3:
			return Path{{X: r.Range(-R, R), Y: r.Range(-R, R)}, {X: r.Range(-R, R), Y: r.Range(-R, R)}}
		case 4: // repeated point
			p := Pt{X: r.Range(-R, R), Y: r.Range(-R, R)}
			return Path{p, p, p, p}
		case 5: // collinear
			a := Pt{X: r.Range(-R/2, R/2), Y: r.Range(-R/2, R/2)}
			dx, dy := r.Range(-3, 3), r.Range(-3, 3)
			n := 3 + r.Intn(5)
			p := make(Path, n)
			for i := range p {
				t := r.Range(-R/8, R/8)
				p[i] = Pt{X: a.X + t*dx, Y: a.Y + t*dy}
			}
			return p
		case 6: // all horizontal
			y := r.Range(-R, R)
			n := 3 + r.Intn(5)
			p := make(Path, n)
			for i := range p {
				p[i] = Pt{X: r.Range(-R, R), Y: y}
			}
			return p
		case 7: // spike: out and back
			a := Pt{X: r.Range(-R, R), Y: r.Range(-R, R)}
			b := Pt{X: r.Range(-R, R), Y: r.Range(-R, R)}
			c := Pt{X: r.Range(-R, R), Y: r.Range(-R, R)}
			return Path{a, b, c, b}
		case 8: // polygon with closing vertex repeated and dup vertices
			p := RandPaths(r, 1, 7, R)[0]
			q := Path{}
			for _, v := range p {
				q = append(q, v)
				if r.Chance(0.4) {
					q = append(q, v)
				}
			}
			q = append(q, q[0])
			return q
		case 9: // zero-area bow/degenerate quad
			a := Pt{X: r.Range(-R, R), Y: r.Range(-R, R)}
			b := Pt{X: r.Range(-R, R), Y: r.Range(-R, R)}
			return Path{a, b, a, b}
		default:
			return RandPaths(r, 1, 6, R)[0]
		}
	}
	mk := func(k int) Paths {
		ps := make(Paths, k)
		for i := range ps {
			ps[i] = one()
		}
		if k > 1 && r.Chance(0.3) { // duplicate of a whole path
			ps[k-1] = append(Path{}, ps[0]...)
		}
		return ps
	}
	subj = mk(r.Intn(4))
	if r.Chance(0.15) {
		subj = nil
	}
	clp = mk(r.Intn(3))
	if r.Chance(0.3) {
		clp = nil
	}
	return
}

// NearDegenerate: edges differing by 0/±1, slivers, near-180° and near-0° joins,
// three edges through almost one point.
func NearDegenerate(r *Rng) (subj, clp Paths) {
	R := PickOf(r, int64(10), 100, 10000, 1<<24)
	j := func() int64 { return r.Range(-1, 1) }
	c := Pt{X: r.Range(-R/4, R/4), Y: r.Range(-R/4, R/4)}
	mk := func() Path {
		switch r.Intn(5) {
		case 0: // thin sliver
			a := Pt{X: r.Range(-R, R), Y: r.Range(-R, R)}
			b := Pt{X: r.Range(-R, R), Y: r.Range(-R, R)}
			return Path{a, b, {X: b.X + j(), Y: b.Y + j()}, {X: a.X + j(), Y: a.Y + j()}}
		case 1: // fan through (almost) one point
			n := 2 + r.Intn(3)
			p := Path{}
			for i := 0; i < n; i++ {
				dx, dy := r.Range(-R, R), r.Range(-R, R)
				p = append(p, Pt{X: c.X + dx + j(), Y: c.Y + dy + j()}, Pt{X: c.X - dx + j(), Y: c.Y - dy + j()})
			}
			return p
		case 2: // near-collinear chain
			a := Pt{X: r.Range(-R, R), Y: r.Range(-R, R)}
			dx, dy := r.Range(-R/8, R/8), r.Range(-R/8, R/8)
			p := Path{a}
			for i := int64(1); i < 5; i++ {
				p = append(p, Pt{X: a.X + i*dx + j(), Y: a.Y + i*dy + j()})
			}
			p = append(p, Pt{X: r.Range(-R, R), Y: r.Range(-R, R)})
			return p
		case 3: // almost horizontal edges
			y := r.Range(-R, R)
			p := Path{}
			for i := 0; i < 4+r.Intn(4); i++ {
				p = append(p, Pt{X: r.Range(-R, R), Y: y + j()})
			}
			p = append(p, Pt{X: r.Range(-R, R), Y: r.Range(-R, R)})
			return p
		default:
			return RandPaths(r, 1, 7, R)[0]
		}
	}
	for i := 0; i < 1+r.Intn(3); i++ {
		subj = append(subj, mk())
	}
	for i := 0; i < r.Intn(3); i++ {
		clp = append(clp, mk())
	}
	return
}

// BigN: 1..3 paths with hundreds to thousands of vertices: a noisy circle-ish
// curve (smooth + noise), so the number of self-intersections stays moderate.
func BigN(r *Rng, minV, maxV int) (subj, clp Paths) {
	return BigNR(r, minV, maxV, []int64{20000, 1000000, 1 << 27})
}

// BigNR is BigN with the magnitude drawn from rs.
func BigNR(r *Rng, minV, maxV int, rs []int64) (subj, clp Paths) {
	R := float64(PickOf(r, rs...))
	mk := func() Path {
		n := minV + r.Intn(maxV-minV+1)
		cx, cy := r.FloatRange(-R/4, R/4), r.FloatRange(-R/4, R/4)
		k1, k2 := float64(2+r.Intn(6)), float64(3+r.Intn(9))
		a1, a2 := r.FloatRange(0.05, 0.3), r.FloatRange(0.02, 0.15)
		noise := r.FloatRange(0, 0.01) * R
		rad := r.FloatRange(0.3, 0.7) * R
		p := make(Path, n)
		for i := range p {
			t := 2 * math.Pi * float64(i) / float64(n)
			rr := rad * (1 + a1*math.Sin(k1*t) + a2*math.Cos(k2*t))
			p[i] = Pt{X: int64(cx + rr*math.Cos(t) + noise*r.Norm()), Y: int64(cy + rr*math.Sin(t) + noise*r.Norm())}
		}
		return p
	}
	subj = Paths{mk()}
	if r.Chance(0.3) {
		subj = append(subj, mk())
	}
	clp = Paths{mk()}
	return
}

// Polylines: open paths with horizontal runs, optionally snapped onto the
// vertices / edges of the given closed paths.
func Polylines(r *Rng, k int, R int64, snapTo Paths) Paths {
	var verts []Pt
	for _, p := range snapTo {
		verts = append(verts, p...)
	}
	ps := make(Paths, 0, k)
	for i := 0; i < k; i++ {
		n := 2 + r.Intn(6)
		p := make(Path, 0, n)
		for j := 0; j < n; j++ {
			var q Pt
			switch {
			case len(verts) > 0 && r.Chance(0.15):
				q = verts[r.Intn(len(verts))]
			case len(verts) > 1 && r.Chance(0.1): // midpoint of two vertices (often on an edge)
				a, b := verts[r.Intn(len(verts))], verts[r.Intn(len(verts))]
				q = Pt{X: (a.X + b.X) / 2, Y: (a.Y + b.Y) / 2}
			case len(p) > 0 && r.Chance(0.25): // horizontal run
				q = Pt{X: r.Range(-R, R), Y: p[len(p)-1].Y}
			case len(p) > 0 && r.Chance(0.1): // vertical run
				q = Pt{X: p[len(p)-1].X, Y: r.Range(-R, R)}
			default:
				q = Pt{X: r.Range(-R, R), Y: r.Range(-R, R)}
			}
			p = append(p, q)
		}
		ps = append(ps, p)
	}
	return ps
}

// Translate returns a translated deep copy.
func Translate(ps Paths, dx, dy int64) Paths {
	if ps == nil {
		return nil
	}
	out := make(Paths, len(ps))
	for i, p := range ps {
		if p == nil {
			continue
		}
		q := make(Path, len(p))
		for j, v := range p {
			q[j] = Pt{X: v.X + dx, Y: v.Y + dy}
		}
		out[i] = q
	}
	return out
}

// ScaleInt returns a deep copy with every coordinate multiplied by s.
func ScaleInt(ps Paths, s int64) Paths {
	out := make(Paths, len(ps))
	for i, p := range ps {
		if p == nil {
			continue
		}
		q := make(Path, len(p))
		for j, v := range p {
			q[j] = Pt{X: v.X * s, Y: v.Y * s}
		}
		out[i] = q
	}
	return out
}

// Clone deep-copies a path set preserving nil-ness.
func Clone(ps Paths) Paths {
	if ps == nil {
		return nil
	}
	out := make(Paths, len(ps))
	for i, p := range ps {
		if p == nil {
			continue
		}
		out[i] = append(Path{}, p...)
	}
	return out
}

// ClonePath deep-copies one path preserving nil-ness.
func ClonePath(p Path) Path {
	if p == nil {
		return nil
	}
	return append(Path{}, p...)
}

// Reverse returns a reversed copy of p.
func Reverse(p Path) Path {
	q := make(Path, len(p))
	for i, v := range p {
		q[len(p)-1-i] = v
	}
	return q
}

// MaxAbs returns the largest coordinate magnitude.
func MaxAbs(sets ...Paths) int64 {
	var m int64
	for _, s := range sets {
		for _, p := range s {
			for _, v := range p {
				m = max(m, max(v.X, -v.X), max(v.Y, -v.Y))
			}
		}
	}
	return m
}

// NumVerts counts vertices.
func NumVerts(sets ...Paths) int {
	n := 0
	for _, s := range sets {
		for _, p := range s {
			n += len(p)
		}
	}
	return n
}

// SortedInt64 helper.
func SortedInt64(xs []int64) []int64 {
	sort.Slice(xs, func(i, j int) bool { return xs[i] < xs[j] })
	return xs
}

// RectSoup: many small axis-aligned boxes on a coarse grid: shared edges, T-junctions, enclosed cavities, islands in
// cavities - the inputs that exercise horizontal joins, join-splits and owner correction in the tree builder.
func RectSoup(r *Rng) (subj, clp Paths) {
	scale := PickOf(r, int64(1), 10, 1000)
	m := int64(5 + r.Intn(6))
	mk := func(k int) Paths {
		ps := make(Paths, 0, k)
		for i := 0; i < k; i++ {
			x0, y0 := r.Range(0, m-1), r.Range(0, m-1)
			x1, y1 := r.Range(x0+1, min(m, x0+4)), r.Range(y0+1, min(m, y0+4))
			ps = append(ps, Box(x0*scale, y0*scale, x1*scale, y1*scale, true))
		}
		return ps
	}
	subj = mk(4 + r.Intn(10))
	clp = mk(r.Intn(8))
	return
}

// RectCavity: frames assembled from four abutting / overlapping bars (so that the enclosed cavity only becomes a
// separate ring through horizontal joins and join-splits), with islands - or further frames - inside the cavity.
func RectCavity(r *Rng) (subj, clp Paths) {
	scale := PickOf(r, int64(1), 10, 1000)
	var all Paths
	var frame func(x0, y0, x1, y1 int64, depth int)
	frame = func(x0, y0, x1, y1 int64, depth int) {
		if x1-x0 < 5 || y1-y0 < 5 {
			return
		}
		t := int64(1)
		ov := int64(0) // bars abut exactly (0) or overlap at the corners (1)
		if r.Bool() {
			ov = 1
		}
		bars := Paths{
			Box(x0, y0, x1, y0+t, true),               // bottom
			Box(x0, y1-t, x1, y1, true),               // top
			Box(x0, y0+t-ov*t, x0+t, y1-t+ov*t, true), // left
			Box(x1-t, y0+t-ov*t, x1, y1-t+ov*t, true), // right
		}
		if r.Chance(0.3) { // a U plus a separate closing bar
			bars[1] = Box(x0+t, y1-t, x1-t, y1, true)
		}
		for _, i := range r.Perm(4) {
			all = append(all, bars[i])
		}
		// island(s) in the cavity
		ix0, iy0 := x0+t+r.Range(1, 2), y0+t+r.Range(1, 2)
		ix1, iy1 := x1-t-r.Range(1, 2), y1-t-r.Range(1, 2)
		if ix1-ix0 < 1 || iy1-iy0 < 1 {
			return
		}
		if depth > 0 && r.Chance(0.6) {
			frame(ix0, iy0, ix1, iy1, depth-1)
		} else {
			all = append(all, Box(ix0, iy0, r.Range(ix0+1, ix1), r.Range(iy0+1, iy1), true))
		}
	}
	n := 1 + r.Intn(2)
	for c := 0; c < n; c++ {
		w, h := r.Range(7, 16), r.Range(7, 16)
		ox := int64(c) * 20
		frame(ox, 0, ox+w, h, 1+r.Intn(3))
	}
	for i := range all {
		for j := range all[i] {
			all[i][j].X *= scale
			all[i][j].Y *= scale
		}
	}
	// split between subject and clip
	for _, p := range all {
		if r.Chance(0.25) {
			clp = append(clp, p)
		} else {
			subj = append(subj, p)
		}
	}
	if len(subj) == 0 {
		subj, clp = clp, nil
	}
	return
}

// Touching: constructed (not random-position) inputs whose rings touch exactly: tilings of many cells sharing whole
// edges, pinwheels of triangles around one vertex, squares and diamonds inscribed in one another (every ring touches
// its parent at four points), a hole that touches its outer ring at a vertex with an island touching the hole, and
// single paths that revisit a vertex. Scaled and then shifted by a large offset in some cases (coordinates above 2^28
// with differences far below 2^31).
func Touching(r *Rng) (subj, clp Paths) {
	var all Paths
	orient := func(p Path, ccw bool) Path {
		if (area2(p) > 0) != ccw {
			return Reverse(p)
		}
		return p
	}
	mode := r.Intn(6)
	switch mode {
	case 0: // tiling
		g := int64(3 + r.Intn(4))
		for x := int64(0); x < g; x++ {
			for y := int64(0); y < g; y++ {
				if !r.Chance(0.7) {
					continue
				}
				ccw := r.Chance(0.8)
				switch r.Intn(3) {
				case 0:
					all = append(all, Box(2*x, 2*y, 2*x+2, 2*y+2, ccw))
				case 1:
					all = append(all, orient(Path{{X: 2 * x, Y: 2 * y}, {X: 2*x + 2, Y: 2 * y}, {X: 2*x + 2, Y: 2*y + 2}}, ccw),
						orient(Path{{X: 2 * x, Y: 2 * y}, {X: 2*x + 2, Y: 2*y + 2}, {X: 2 * x, Y: 2*y + 2}}, ccw))
				default:
					all = append(all, orient(Path{{X: 2 * x, Y: 2 * y}, {X: 2*x + 2, Y: 2 * y}, {X: 2 * x, Y: 2*y + 2}}, ccw),
						orient(Path{{X: 2*x + 2, Y: 2 * y}, {X: 2*x + 2, Y: 2*y + 2}, {X: 2 * x, Y: 2*y + 2}}, ccw))
				}
			}
		}
	case 1: // pinwheel around (8,8)
		dirs := []Pt{{X: 8, Y: 0}, {X: 8, Y: 4}, {X: 8, Y: 8}, {X: 4, Y: 8}, {X: 0, Y: 8}, {X: -4, Y: 8}, {X: -8, Y: 8}, {X: -8, Y: 4}, {X: -8, Y: 0},
			{X: -8, Y: -4}, {X: -8, Y: -8}, {X: -4, Y: -8}, {X: 0, Y: -8}, {X: 4, Y: -8}, {X: 8, Y: -8}, {X: 8, Y: -4}}
		k := 3 + r.Intn(8)
		for i := 0; i < k; i++ {
			a := r.Intn(len(dirs))
			b := (a + 1 + r.Intn(3)) % len(dirs)
			all = append(all, orient(Path{{X: 8, Y: 8}, {X: 8 + dirs[a].X, Y: 8 + dirs[a].Y}, {X: 8 + dirs[b].X, Y: 8 + dirs[b].Y}}, r.Chance(0.8)))
		}
	case 2: // squares and diamonds inscribed in one another
		depth := 2 + r.Intn(6)
		x0, y0, x1, y1 := int64(0), int64(0), int64(64), int64(64)
		alt := r.Bool()
		for d := 0; d < depth && x1-x0 >= 2; d++ {
			ccw := !alt || d%2 == 0
			if d%2 == 0 {
				all = append(all, Box(x0, y0, x1, y1, ccw))
			} else {
				mx, my := (x0+x1)/2, (y0+y1)/2
				all = append(all, orient(Path{{X: mx, Y: y0}, {X: x1, Y: my}, {X: mx, Y: y1}, {X: x0, Y: my}}, ccw))
				q := (x1 - x0) / 4
				x0, y0, x1, y1 = x0+q, y0+q, x1-q, y1-q
			}
		}
	case 3: // hole touching its outer ring at a vertex / on an edge, island touching the hole
		all = append(all, Box(0, 0, 16, 16, true))
		hv := PickOf(r, Pt{X: 0, Y: 0}, Pt{X: 8, Y: 0}, Pt{X: 16, Y: 16}, Pt{X: 0, Y: 6})
		h := Path{hv, {X: 12, Y: 4 + r.Range(0, 2)}, {X: 4 + r.Range(0, 2), Y: 12}}
		all = append(all, orient(h, r.Chance(0.3)))
		if r.Chance(0.8) {
			iv := PickOf(r, h[1], h[2], Pt{X: (h[1].X + h[2].X) / 2, Y: (h[1].Y + h[2].Y) / 2})
			isl := Path{iv, {X: 8, Y: 6}, {X: 6, Y: 8}}
			all = append(all, orient(isl, r.Chance(0.8)))
		}
		if r.Chance(0.4) {
			all = append(all, Box(16, 4, 24, 12, true)) // a neighbour sharing part of an edge
		}
	case 4: // one path revisiting a vertex: loops joined at (8,8)
		k := 2 + r.Intn(3)
		p := Path{}
		quad := r.Perm(4)
		for i := 0; i < k; i++ {
			sx, sy := int64(1), int64(1)
			if quad[i]&1 == 1 {
				sx = -1
			}
			if quad[i]&2 == 2 {
				sy = -1
			}
			a, b := Pt{X: 8 + sx*r.Range(2, 8), Y: 8 + sy*r.Range(0, 3)}, Pt{X: 8 + sx*r.Range(0, 3), Y: 8 + sy*r.Range(4, 8)}
			if r.Bool() {
				a, b = b, a
			}
			p = append(p, Pt{X: 8, Y: 8}, a, b)
		}
		all = append(all, p)
		if r.Chance(0.6) {
			all = append(all, Box(4, 4, 12, 12, r.Bool()))
		}
	default: // strips: three or more paths with collinear, partly overlapping edges on one line
		k := 3 + r.Intn(4)
		for i := 0; i < k; i++ {
			a := r.Range(0, 20)
			b := a + r.Range(1, 10)
			hgt := r.Range(1, 6)
			if r.Bool() {
				all = append(all, orient(Path{{X: a, Y: 8}, {X: b, Y: 8}, {X: b - r.Range(0, 2), Y: 8 + hgt}, {X: a + r.Range(0, 2), Y: 8 + hgt}}, r.Chance(0.8)))
			} else {
				all = append(all, orient(Path{{X: a, Y: 8}, {X: b, Y: 8}, {X: (a + b) / 2, Y: 8 - hgt}}, r.Chance(0.8)))
			}
		}
	}
	// a shear keeps all incidences and makes the edges non-axis-parallel
	if r.Chance(0.4) {
		k := r.Range(1, 3)
		for i := range all {
			for j := range all[i] {
				all[i][j].X += k * all[i][j].Y
			}
		}
	}
	scale := PickOf(r, int64(1), 3, 10, 1000, 1<<20)
	var ox, oy int64
	if scale <= 1000 && r.Chance(0.4) { // stays within +-2^29
		const big = int64(1)<<29 - 1<<20
		ox, oy = PickOf(r, big, -big, 1<<28+12345), PickOf(r, big, -(int64(1)<<28), 0)
	}
	for i := range all {
		for j := range all[i] {
			all[i][j].X = all[i][j].X*scale + ox
			all[i][j].Y = all[i][j].Y*scale + oy
		}
	}
	cp := r.FloatRange(0, 0.6)
	for _, i := range r.Perm(len(all)) {
		if r.Chance(cp) {
			clp = append(clp, all[i])
		} else {
			subj = append(subj, all[i])
		}
	}
	if len(subj) == 0 {
		subj, clp = clp, nil
	}
	return
}

// Stacked: inputs that pile paths on top of one another. Mode A: 130..400 nested same-orientation rings (winding numbers
// in the hundreds at the centre), optionally crossed by a few clip polygons. Mode B: 2..8 coincident copies of a few
// boxes (identical rings, some reversed), smaller boxes inside them and boxes sitting on their shared edges.
func Stacked(r *Rng) (subj, clp Paths) {
	scale := PickOf(r, int64(1), 10, 1000)
	if r.Chance(0.4) {
		k := int64(130 + r.Intn(271))
		step := PickOf(r, int64(1), 2, 5)
		R := k*step + r.Range(5, 50)
		ccw := r.Chance(0.7)
		tri := r.Chance(0.3)
		for i := int64(0); i < k; i++ {
			d := R - i*step
			if tri {
				p := Path{{X: -d, Y: -d}, {X: d, Y: -d}, {X: 0, Y: d}}
				if !ccw {
					p = Reverse(p)
				}
				subj = append(subj, p)
			} else {
				subj = append(subj, Box(-d, -d, d, d, ccw))
			}
		}
		if r.Chance(0.2) { // a few rings of the other orientation lower the count again
			for i := 0; i < 1+r.Intn(20); i++ {
				d := r.Range(3, R)
				subj = append(subj, Box(-d, -d, d, d, !ccw))
			}
		}
		for i := 0; i < r.Intn(3); i++ {
			clp = append(clp, StarPoly(r, r.Range(-R, R), r.Range(-R, R), float64(R)*0.3, float64(R)*0.9, 3+r.Intn(6), r.Bool()))
		}
	} else if r.Chance(0.4) {
		// coincident outer boxes in both sets, coincident inner boxes, and bars that reach from an outer edge to (or
		// beyond) the inner box: rings that exist only through splits of rings that were themselves split off
		w, h := r.Range(5, 10), r.Range(5, 10)
		var all Paths
		for c := 0; c < 2+r.Intn(5); c++ {
			all = append(all, Box(0, 0, w, h, r.Chance(0.6)))
		}
		ix0, iy0 := r.Range(1, 2), r.Range(1, 2)
		ix1, iy1 := w-r.Range(1, 2), h-r.Range(1, 2)
		for c := 0; c < 1+r.Intn(3); c++ {
			all = append(all, Box(ix0, iy0, ix1, iy1, r.Chance(0.4)))
		}
		for b := 0; b < 1+r.Intn(3); b++ {
			switch r.Intn(4) {
			case 0: // from the top edge (y=h) inwards
				ax := r.Range(0, w-1)
				all = append(all, Box(ax, h-r.Range(1, h-1), r.Range(ax+1, w), h, r.Chance(0.7)))
			case 1: // from the bottom edge
				ax := r.Range(0, w-1)
				all = append(all, Box(ax, 0, r.Range(ax+1, w), r.Range(1, h-1), r.Chance(0.7)))
			case 2: // from the left edge
				ay := r.Range(0, h-1)
				all = append(all, Box(0, ay, r.Range(1, w-1), r.Range(ay+1, h), r.Chance(0.7)))
			default: // from the right edge
				ay := r.Range(0, h-1)
				all = append(all, Box(w-r.Range(1, w-1), ay, w, r.Range(ay+1, h), r.Chance(0.7)))
			}
		}
		cp := r.FloatRange(0.2, 0.6)
		for _, i := range r.Perm(len(all)) {
			if r.Chance(cp) {
				clp = append(clp, all[i])
			} else {
				subj = append(subj, all[i])
			}
		}
		if len(subj) == 0 {
			subj, clp = clp, nil
		}
	} else {
		m := int64(6 + r.Intn(7))
		var all Paths
		for b := 0; b < 1+r.Intn(3); b++ {
			x0, y0 := r.Range(0, m-3), r.Range(0, m-3)
			x1, y1 := r.Range(x0+2, m), r.Range(y0+2, m)
			copies := 2 + r.Intn(7)
			for c := 0; c < copies; c++ {
				all = append(all, Box(x0, y0, x1, y1, r.Chance(0.8)))
			}
			// boxes inside, boxes sitting on an edge (inside or outside), boxes sharing a corner
			for e := 0; e < r.Intn(5); e++ {
				switch r.Intn(5) {
				case 0, 4:
					if x1-x0 > 2 && y1-y0 > 2 {
						ax, ay := r.Range(x0+1, x1-2), r.Range(y0+1, y1-2)
						all = append(all, Box(ax, ay, r.Range(ax+1, x1-1), r.Range(ay+1, y1-1), r.Chance(0.7)))
					}
				case 1: // on the bottom / top edge, reaching 1 or more units inwards (may bridge to an inner box)
					ax := r.Range(x0, x1-1)
					dep := r.Range(1, y1-y0-1)
					if r.Bool() {
						all = append(all, Box(ax, y0, r.Range(ax+1, x1), y0+dep, r.Chance(0.7)))
					} else {
						all = append(all, Box(ax, y1-dep, r.Range(ax+1, x1), y1, r.Chance(0.7)))
					}
				case 2: // on the left / right edge, outside
					ay := r.Range(y0, y1-1)
					xx := PickOf(r, x0-1, x1)
					all = append(all, Box(xx, ay, xx+1, r.Range(ay+1, y1), r.Chance(0.7)))
				default:
					all = append(all, Box(x1, y1, x1+r.Range(1, 3), y1+r.Range(1, 3), r.Chance(0.7)))
				}
			}
		}
		cp := r.FloatRange(0, 0.5)
		for _, i := range r.Perm(len(all)) {
			if r.Chance(cp) {
				clp = append(clp, all[i])
			} else {
				subj = append(subj, all[i])
			}
		}
		if len(subj) == 0 {
			subj, clp = clp, nil
		}
	}
	subj, clp = ScaleInt(subj, scale), ScaleInt(clp, scale)
	return
}
