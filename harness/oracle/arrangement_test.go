package oracle

import (
	"math"
	"testing"
)

func TestDecompose(t *testing.T) {
	a := Paths{{{0, 0}, {10, 0}, {10, 10}, {0, 10}}}
	b := Paths{{{5, 5}, {15, 5}, {15, 15}, {5, 15}}}
	cells, ok := Decompose(a, b, 1000)
	if !ok {
		t.Fatal("not ok")
	}
	var u, i, s float64
	for _, c := range cells {
		inS, inC := c.WS != 0, c.WC != 0
		if inS || inC {
			u += c.Area
		}
		if inS && inC {
			i += c.Area
		}
		if inS {
			s += c.Area
		}
	}
	if math.Abs(u-175) > 1e-9 || math.Abs(i-25) > 1e-9 || math.Abs(s-100) > 1e-9 {
		t.Fatalf("u=%v i=%v s=%v", u, i, s)
	}
	// bow-tie: winding +1 and -1 lobes
	bow := Paths{{{0, 0}, {10, 10}, {10, 0}, {0, 10}}}
	cells, _ = Decompose(bow, nil, 1000)
	var pos, neg float64
	for _, c := range cells {
		if c.WS > 0 {
			pos += c.Area
		}
		if c.WS < 0 {
			neg += c.Area
		}
	}
	if math.Abs(pos-25) > 1e-9 || math.Abs(neg-25) > 1e-9 {
		t.Fatalf("pos=%v neg=%v", pos, neg)
	}
	// triangle with sloped edges, clockwise
	tri := Paths{{{0, 0}, {3, 9}, {12, 0}}}
	cells, _ = Decompose(tri, nil, 1000)
	var ar float64
	for _, c := range cells {
		if c.WS != -1 {
			t.Fatalf("winding %d", c.WS)
		}
		ar += c.Area
	}
	if math.Abs(ar-54) > 1e-9 {
		t.Fatalf("area %v", ar)
	}
}
