package oracle

import "testing"

func TestIsSimpleSet(t *testing.T) {
	sq := Path{{0, 0}, {10, 0}, {10, 10}, {0, 10}}
	if !IsSimpleSet(Paths{sq}) {
		t.Fatal("square not simple")
	}
	tri := Path{{0, 0}, {10, 0}, {5, 8}}
	if !IsSimpleSet(Paths{tri}) {
		t.Fatal("triangle not simple")
	}
	hole := Path{{2, 2}, {2, 8}, {8, 8}, {8, 2}}
	if !IsSimpleSet(Paths{sq, hole}) {
		t.Fatal("square with hole not simple")
	}
	bow := Path{{0, 0}, {10, 10}, {10, 0}, {0, 10}}
	if IsSimpleSet(Paths{bow}) {
		t.Fatal("bow tie simple")
	}
}
