package oracle

import (
	"math"

	clip "github.com/bolom009/go-clipper2"
)

type Pt = clip.Point64
type Path = clip.Path64
type Paths = clip.Paths64

// Cross returns (b-a) x (c-a) exactly. Coordinate differences must fit in int64.
func Cross(a, b, c Pt) I128 {
	return Mul(b.X-a.X, c.Y-a.Y).Sub(Mul(b.Y-a.Y, c.X-a.X))
}

// CrossSign is the sign of Cross.
func CrossSign(a, b, c Pt) int { return Cross(a, b, c).Sign() }

// Dot returns (b-a).(c-a) exactly.
func Dot(a, b, c Pt) I128 {
	return Mul(b.X-a.X, c.X-a.X).Add(Mul(b.Y-a.Y, c.Y-a.Y))
}

// OnSegment reports whether p lies on the closed segment ab (exactly).
func OnSegment(p, a, b Pt) bool {
	if CrossSign(a, b, p) != 0 {
		return false
	}
	return min(a.X, b.X) <= p.X && p.X <= max(a.X, b.X) &&
		min(a.Y, b.Y) <= p.Y && p.Y <= max(a.Y, b.Y)
}

// WindingPath is the winding number of p about one closed path (implicitly
// closed), and whether p lies exactly on its boundary.
func WindingPath(path Path, p Pt) (w int, on bool) {
	n := len(path)
	if n == 0 {
		return 0, false
	}
	if n == 1 {
		return 0, path[0] == p
	}
	a := path[n-1]
	for i := 0; i < n; i++ {
		b := path[i]
		if a != b {
			if a.Y <= p.Y {
				if b.Y > p.Y {
					s := CrossSign(a, b, p)
					if s > 0 {
						w++
					} else if s == 0 {
						on = true
					}
				} else if OnSegment(p, a, b) {
					on = true
				}
			} else {
				if b.Y <= p.Y {
					s := CrossSign(a, b, p)
					if s < 0 {
						w--
					} else if s == 0 {
						on = true
					}
				}
			}
		} else if a == p {
			on = true
		}
		a = b
	}
	return w, on
}

// Winding sums WindingPath over a set.
func Winding(paths Paths, p Pt) (w int, on bool) {
	for _, path := range paths {
		wi, oi := WindingPath(path, p)
		w += wi
		on = on || oi
	}
	return
}

// Fill applies a fill rule (numeric value as in the library: 0 EvenOdd, 1
// NonZero, 2 Positive, 3 Negative) to a winding number.
func Fill(rule clip.FillRule, w int) bool {
	switch rule {
	case clip.EvenOdd:
		return w&1 != 0
	case clip.NonZero:
		return w != 0
	case clip.Positive:
		return w > 0
	case clip.Negative:
		return w < 0
	}
	return false
}

// BoolOp combines two memberships by clip type.
func BoolOp(ct clip.ClipType, inS, inC bool) bool {
	switch ct {
	case clip.Intersection:
		return inS && inC
	case clip.Union:
		return inS || inC
	case clip.Difference:
		return inS && !inC
	case clip.Xor:
		return inS != inC
	}
	return false
}

// SegDist is the distance from p to the closed segment ab in float64; the
// perpendicular part uses an exact cross product so the result is accurate to
// ~1e-9 relative even for coordinates near 2^61.
func SegDist(p, a, b Pt) float64 {
	dx := float64(b.X - a.X)
	dy := float64(b.Y - a.Y)
	px := float64(p.X - a.X)
	py := float64(p.Y - a.Y)
	len2 := dx*dx + dy*dy
	if len2 == 0 {
		return math.Hypot(px, py)
	}
	t := (px*dx + py*dy) / len2
	if t <= 0 {
		return math.Hypot(px, py)
	}
	if t >= 1 {
		return math.Hypot(float64(p.X-b.X), float64(p.Y-b.Y))
	}
	return math.Abs(Cross(a, b, p).Float()) / math.Sqrt(len2)
}

// SegDistF is SegDist for a float sample point.
func SegDistF(px, py float64, a, b Pt) float64 {
	ax, ay := float64(a.X), float64(a.Y)
	dx := float64(b.X) - ax
	dy := float64(b.Y) - ay
	qx := px - ax
	qy := py - ay
	len2 := dx*dx + dy*dy
	if len2 == 0 {
		return math.Hypot(qx, qy)
	}
	t := (qx*dx + qy*dy) / len2
	if t <= 0 {
		return math.Hypot(qx, qy)
	}
	if t >= 1 {
		return math.Hypot(px-float64(b.X), py-float64(b.Y))
	}
	return math.Abs(qx*dy-qy*dx) / math.Sqrt(len2)
}

// EdgeIter calls f for every edge of every path; closed adds the closing edge.
func EdgeIter(paths Paths, closed bool, f func(a, b Pt)) {
	for _, path := range paths {
		n := len(path)
		if n == 0 {
			continue
		}
		if n == 1 {
			f(path[0], path[0])
			continue
		}
		for i := 0; i+1 < n; i++ {
			f(path[i], path[i+1])
		}
		if closed {
			f(path[n-1], path[0])
		}
	}
}

// Edges is a flat edge list with bounding boxes, for repeated distance queries.
type Edges struct {
	A, B []Pt
}

func NewEdges(closed bool, sets ...Paths) *Edges {
	e := &Edges{}
	for _, s := range sets {
		EdgeIter(s, closed, func(a, b Pt) {
			e.A = append(e.A, a)
			e.B = append(e.B, b)
		})
	}
	return e
}

func (e *Edges) Len() int { return len(e.A) }

// FartherThan reports whether p is farther than thr from every edge. The
// comparison is conservative: it answers true only when the computed distance
// exceeds thr by the safety margin, so excluding borderline points is the only
// possible error.
func (e *Edges) FartherThan(p Pt, thr float64) bool {
	lim := thr + Margin(p)
	ilim := int64(math.Ceil(lim)) + 1
	for i := range e.A {
		a, b := e.A[i], e.B[i]
		if p.X < min(a.X, b.X)-ilim || p.X > max(a.X, b.X)+ilim ||
			p.Y < min(a.Y, b.Y)-ilim || p.Y > max(a.Y, b.Y)+ilim {
			continue
		}
		if SegDist(p, a, b) <= lim {
			return false
		}
	}
	return true
}

// MinDist is the minimum distance from p to any edge (+Inf if none).
func (e *Edges) MinDist(p Pt) float64 {
	best := math.Inf(1)
	for i := range e.A {
		d := SegDist(p, e.A[i], e.B[i])
		if d < best {
			best = d
		}
	}
	return best
}

// MinDistF is MinDist for a float point.
func (e *Edges) MinDistF(px, py float64) float64 {
	best := math.Inf(1)
	for i := range e.A {
		d := SegDistF(px, py, e.A[i], e.B[i])
		if d < best {
			best = d
		}
	}
	return best
}

// Margin is the safety margin added to every distance threshold.
func Margin(p Pt) float64 {
	m := math.Max(math.Abs(float64(p.X)), math.Abs(float64(p.Y)))
	return 0.01 + m*math.Exp2(-40)
}

// Area2 is twice the signed area of a closed path, exactly (shoelace).
func Area2(path Path) I128 {
	var s I128
	n := len(path)
	if n < 3 {
		return s
	}
	a := path[n-1]
	for _, b := range path {
		s = s.Add(Mul(a.X, b.Y)).Sub(Mul(b.X, a.Y))
		a = b
	}
	return s
}

// Area2Paths sums Area2.
func Area2Paths(paths Paths) I128 {
	var s I128
	for _, p := range paths {
		s = s.Add(Area2(p))
	}
	return s
}

// Bounds of a set of path sets; ok=false if there is no point.
func Bounds(sets ...Paths) (minX, minY, maxX, maxY int64, ok bool) {
	minX, minY = math.MaxInt64, math.MaxInt64
	maxX, maxY = math.MinInt64, math.MinInt64
	for _, s := range sets {
		for _, path := range s {
			for _, p := range path {
				ok = true
				minX = min(minX, p.X)
				maxX = max(maxX, p.X)
				minY = min(minY, p.Y)
				maxY = max(maxY, p.Y)
			}
		}
	}
	return
}

// SegSegIntersectF returns the float intersection point of the lines through
// ab and cd if the segments properly or improperly intersect (exact test), for
// use as a neighbourhood to sample in. ok=false for parallel/disjoint.
func SegSegIntersectF(a, b, c, d Pt) (x, y float64, ok bool) {
	d1 := CrossSign(a, b, c)
	d2 := CrossSign(a, b, d)
	d3 := CrossSign(c, d, a)
	d4 := CrossSign(c, d, b)
	if d1*d2 > 0 || d3*d4 > 0 {
		return 0, 0, false
	}
	den := Mul(b.X-a.X, d.Y-c.Y).Sub(Mul(b.Y-a.Y, d.X-c.X))
	if den.IsZero() {
		return 0, 0, false
	}
	num := Mul(c.X-a.X, d.Y-c.Y).Sub(Mul(c.Y-a.Y, d.X-c.X))
	t := num.Float() / den.Float()
	return float64(a.X) + t*float64(b.X-a.X), float64(a.Y) + t*float64(b.Y-a.Y), true
}

// SegsIntersectExact reports whether closed segments ab and cd share a point.
func SegsIntersectExact(a, b, c, d Pt) bool {
	d1 := CrossSign(a, b, c)
	d2 := CrossSign(a, b, d)
	d3 := CrossSign(c, d, a)
	d4 := CrossSign(c, d, b)
	if d1*d2 < 0 && d3*d4 < 0 {
		return true
	}
	if d1 == 0 && OnSegment(c, a, b) {
		return true
	}
	if d2 == 0 && OnSegment(d, a, b) {
		return true
	}
	if d3 == 0 && OnSegment(a, c, d) {
		return true
	}
	if d4 == 0 && OnSegment(b, c, d) {
		return true
	}
	return false
}

// SegsCrossProper reports whether the open segments cross at a single
// interior point of both (exact).
func SegsCrossProper(a, b, c, d Pt) bool {
	d1 := CrossSign(a, b, c)
	d2 := CrossSign(a, b, d)
	d3 := CrossSign(c, d, a)
	d4 := CrossSign(c, d, b)
	return d1*d2 < 0 && d3*d4 < 0
}

// IsSimpleSet reports whether a set of closed paths has no two edges that
// touch or cross except consecutive edges at their shared vertex, no repeated
// vertices and every path has >= 3 vertices. O(n^2); use on small inputs.
func IsSimpleSet(paths Paths) bool {
	type edge struct {
		a, b   Pt
		pi, ei int
		n      int
	}
	var es []edge
	for pi, path := range paths {
		n := len(path)
		if n < 3 {
			return false
		}
		for i := 0; i < n; i++ {
			a, b := path[i], path[(i+1)%n]
			if a == b {
				return false
			}
			es = append(es, edge{a, b, pi, i, n})
		}
	}
	for i := 0; i < len(es); i++ {
		for j := i + 1; j < len(es); j++ {
			e, f := es[i], es[j]
			adjacent := false
			if e.pi == f.pi {
				if (e.ei+1)%e.n == f.ei || (f.ei+1)%f.n == e.ei {
					adjacent = true
				}
			}
			if adjacent {
				// must only share the common vertex: the other endpoint must not lie on the edge
				var shared, oe, of Pt
				if (e.ei+1)%e.n == f.ei {
					shared, oe, of = e.b, e.a, f.b
				} else {
					shared, oe, of = e.a, e.b, f.a
				}
				if e.n == 3 {
					// in a triangle every pair is adjacent on both sides; collinearity check is enough
					if CrossSign(e.a, e.b, of) == 0 {
						return false
					}
					continue
				}
				if OnSegment(of, shared, oe) || OnSegment(oe, shared, of) {
					return false
				}
				continue
			}
			if SegsIntersectExact(e.a, e.b, f.a, f.b) {
				return false
			}
		}
	}
	return true
}
