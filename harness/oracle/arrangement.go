package oracle

import (
	"math"
	"sort"
)

// Cell is one trapezoid of the vertical-slab decomposition of the plane by the
// edges of two closed path sets, with the winding numbers of the two sets in it.
type Cell struct {
	WS, WC int
	Area   float64
}

type arrEdge struct {
	x0, y0, x1, y1 float64 // x0 < x1
	dir            int     // +1 if the original edge ran left-to-right, else -1
	set            int     // 0 subject, 1 clip
}

// Decompose returns the cells (with non-zero area) of the arrangement of the
// edges of subj and clp. Everything is float64: the result is meant for area
// comparisons whose tolerance (a multiple of the total edge length) dwarfs the
// ~1e-9 relative error made here. maxEdges guards the O(n^2) intersection scan.
func Decompose(subj, clp Paths, maxEdges int) (cells []Cell, ok bool) {
	var es []arrEdge
	add := func(ps Paths, set int) {
		EdgeIter(ps, true, func(a, b Pt) {
			if a.X == b.X {
				return // vertical edges bound no area in a vertical-slab decomposition
			}
			e := arrEdge{float64(a.X), float64(a.Y), float64(b.X), float64(b.Y), 1, set}
			if a.X > b.X {
				e = arrEdge{float64(b.X), float64(b.Y), float64(a.X), float64(a.Y), -1, set}
			}
			es = append(es, e)
		})
	}
	add(subj, 0)
	add(clp, 1)
	if len(es) == 0 {
		return nil, true
	}
	if len(es) > maxEdges {
		return nil, false
	}
	// event abscissae: end points and pairwise intersections
	xs := make([]float64, 0, 4*len(es))
	for _, e := range es {
		xs = append(xs, e.x0, e.x1)
	}
	for i := 0; i < len(es); i++ {
		a := es[i]
		for j := i + 1; j < len(es); j++ {
			b := es[j]
			lo, hi := math.Max(a.x0, b.x0), math.Min(a.x1, b.x1)
			if lo >= hi {
				continue
			}
			// y_a(x) - y_b(x) changes sign inside (lo,hi)?
			sa := (a.y1 - a.y0) / (a.x1 - a.x0)
			sb := (b.y1 - b.y0) / (b.x1 - b.x0)
			if sa == sb {
				continue
			}
			// a.y0 + sa (x - a.x0) = b.y0 + sb (x - b.x0)
			x := (b.y0 - a.y0 + sa*a.x0 - sb*b.x0) / (sa - sb)
			if x > lo && x < hi {
				xs = append(xs, x)
			}
		}
	}
	sort.Float64s(xs)
	type cross struct {
		ym, yl, yr float64
		dir, set   int
	}
	var cr []cross
	for k := 0; k+1 < len(xs); k++ {
		xl, xr := xs[k], xs[k+1]
		w := xr - xl
		if w <= 0 {
			continue
		}
		xm := (xl + xr) / 2
		cr = cr[:0]
		for _, e := range es {
			if e.x0 <= xl && e.x1 >= xr {
				s := (e.y1 - e.y0) / (e.x1 - e.x0)
				cr = append(cr, cross{e.y0 + s*(xm-e.x0), e.y0 + s*(xl-e.x0), e.y0 + s*(xr-e.x0), e.dir, e.set})
			}
		}
		sort.Slice(cr, func(i, j int) bool { return cr[i].ym < cr[j].ym })
		ws, wc := 0, 0
		for i := 0; i+1 < len(cr); i++ {
			// crossing edge i upwards: a left-to-right edge has the point above it on its left side -> winding +1
			if cr[i].set == 0 {
				ws += cr[i].dir
			} else {
				wc += cr[i].dir
			}
			if ws == 0 && wc == 0 {
				continue
			}
			area := ((cr[i+1].yl - cr[i].yl) + (cr[i+1].yr - cr[i].yr)) / 2 * w
			if area > 0 {
				cells = append(cells, Cell{ws, wc, area})
			}
		}
	}
	return cells, true
}
