// Package oracle holds the exact-arithmetic reference computations the monitors
// compare the library against. Nothing in here calls into the library's
// algorithms; only its plain data types (Point64, Path64, ...) are used.
package oracle

import (
	"math"
	"math/big"
	"math/bits"
)

// I128 is a signed 128-bit integer (two's complement), enough for sums of a
// few million products of two 63-bit values.
type I128 struct {
	Hi int64
	Lo uint64
}

func absU(a int64) uint64 {
	if a < 0 {
		return uint64(-a) // MinInt64 maps to 2^63, which is what we want
	}
	return uint64(a)
}

// Mul returns a*b exactly.
func Mul(a, b int64) I128 {
	hi, lo := bits.Mul64(absU(a), absU(b))
	r := I128{int64(hi), lo}
	if (a < 0) != (b < 0) {
		r = r.Neg()
	}
	return r
}

func (x I128) Neg() I128 {
	lo := ^x.Lo + 1
	hi := ^x.Hi
	if lo == 0 {
		hi++
	}
	return I128{hi, lo}
}

func (x I128) Add(y I128) I128 {
	lo, c := bits.Add64(x.Lo, y.Lo, 0)
	return I128{x.Hi + y.Hi + int64(c), lo}
}

func (x I128) Sub(y I128) I128 { return x.Add(y.Neg()) }

func (x I128) Sign() int {
	if x.Hi < 0 {
		return -1
	}
	if x.Hi == 0 && x.Lo == 0 {
		return 0
	}
	return 1
}

func (x I128) IsZero() bool { return x.Hi == 0 && x.Lo == 0 }

func (x I128) Abs() I128 {
	if x.Hi < 0 {
		return x.Neg()
	}
	return x
}

// Cmp compares x and y.
func (x I128) Cmp(y I128) int {
	if x.Hi != y.Hi {
		if x.Hi < y.Hi {
			return -1
		}
		return 1
	}
	if x.Lo != y.Lo {
		if x.Lo < y.Lo {
			return -1
		}
		return 1
	}
	return 0
}

// Float returns the nearest float64 (round-to-nearest-even via big.Float would
// be exact; this is within 1 ulp which is all callers need, except Big()).
func (x I128) Float() float64 {
	neg := x.Hi < 0
	a := x
	if neg {
		a = x.Neg()
	}
	f := float64(uint64(a.Hi))*math.Exp2(64) + float64(a.Lo)
	if neg {
		return -f
	}
	return f
}

// Big converts to *big.Int.
func (x I128) Big() *big.Int {
	neg := x.Hi < 0
	a := x
	if neg {
		a = x.Neg()
	}
	r := new(big.Int).SetUint64(uint64(a.Hi))
	r.Lsh(r, 64)
	r.Or(r, new(big.Int).SetUint64(a.Lo))
	if neg {
		r.Neg(r)
	}
	return r
}

// FitsInt64 reports whether x is representable as int64 and returns it.
func (x I128) FitsInt64() (int64, bool) {
	if x.Hi == 0 && x.Lo <= math.MaxInt64 {
		return int64(x.Lo), true
	}
	if x.Hi == -1 && x.Lo >= 1<<63 {
		return int64(x.Lo), true
	}
	return 0, false
}
