// Package run is the execution framework: parent/worker process protocol,
// per-case progress log (so a fatal crash can be attributed to the case in
// flight), failure records, known-finding matching and evidence files.
package run

import (
	"crypto/sha256"
	"encoding/binary"
	"encoding/hex"
	"encoding/json"
	"fmt"
	"hash/fnv"
	"os"
	"runtime/debug"
	"sort"
	"strings"
)

// Failure is one observed disagreement between the library and an oracle.
type Failure struct {
	Prop   string `json:"property"`
	CaseID string `json:"case"`             // family/index/stream (regenerable)
	Digest string `json:"digest"`           // sha256 of the canonical input
	Sub    string `json:"sub"`              // which sub-check fired
	Class  string `json:"class,omitempty"`  // call-site class established from hook events ("" = none)
	Detail string `json:"detail,omitempty"` // witness
	Input  any    `json:"input,omitempty"`  // the case written out
}

// Prop is a registered property monitor.
type Prop struct {
	ID          string
	Rule        string   // how cases are generated and what makes one non-trivial
	Assumptions []string // trusted base
	Floor       int      // minimum distinct non-trivial cases for a run to count (quick tier)
	// Cases enumerates the case ids of a run (deterministic in tier and seed).
	Cases func(tier string, seed uint64) []CaseID
	// RunCase executes one case; it must call ctx.Fail for every violation.
	RunCase func(ctx *Ctx, id CaseID)
	// Post inspects the merged observation counters after all workers finished and
	// returns reasons why the run must be reported inconclusive (e.g. an exported
	// API that was never exercised).
	Post func(counters map[string]int64) []string
	// Custom replaces the sharded case runner entirely (used by C18).
	Custom func(tier string, seed uint64) int
}

// CaseID identifies a regenerable case.
type CaseID struct {
	Family string `json:"family"`
	Index  uint64 `json:"index"`
	Stream uint64 `json:"stream"` // 0 = closed pool; otherwise derived from VERIF_SEED
}

func (c CaseID) String() string { return fmt.Sprintf("%s/%d/%d", c.Family, c.Index, c.Stream) }

func ParseCaseID(s string) (CaseID, error) {
	i := strings.LastIndex(s, "/")
	if i < 0 {
		return CaseID{}, fmt.Errorf("bad case id %q", s)
	}
	j := strings.LastIndex(s[:i], "/")
	if j < 0 {
		return CaseID{}, fmt.Errorf("bad case id %q", s)
	}
	var c CaseID
	c.Family = s[:j]
	if _, err := fmt.Sscanf(s[j+1:i], "%d", &c.Index); err != nil {
		return c, err
	}
	if _, err := fmt.Sscanf(s[i+1:], "%d", &c.Stream); err != nil {
		return c, err
	}
	return c, nil
}

// Ctx is handed to RunCase inside a worker.
type Ctx struct {
	Prop     string
	Tier     string
	Seed     uint64
	cur      CaseID
	res      *ShardResult
	distinct map[uint64]struct{}
	progress *os.File
	seq      uint64
	Verbose  bool
	failSink *os.File
	known    *KnownFile
}

// SetKnown lets the worker recognise listed findings so that they are counted
// (per finding id) instead of consuming the per-shard failure cap.
func (c *Ctx) SetKnown(k *KnownFile) { c.known = k }

// SetFailSink makes Fail stream each failure to f as one JSON line, so that
// failures survive a later fatal crash of the worker.
func (c *Ctx) SetFailSink(f *os.File) { c.failSink = f }

// ShardResult is what a worker reports.
type ShardResult struct {
	Shard       int               `json:"shard"`
	Evaluations int64             `json:"evaluations"`
	Cases       int64             `json:"cases"`
	Counters    map[string]int64  `json:"counters"`
	Failures    []Failure         `json:"failures"`
	Samples     []any             `json:"samples"`
	Nontrivial  []uint64          `json:"-"`
	Notes       map[string]string `json:"notes,omitempty"`
	KnownMet    map[string]int64  `json:"known_met,omitempty"`
	Done        bool              `json:"done"`
	LastSeq     uint64            `json:"last_seq"`
}

func NewCtx(prop, tier string, seed uint64, progress *os.File) *Ctx {
	return &Ctx{Prop: prop, Tier: tier, Seed: seed, progress: progress,
		res:      &ShardResult{Counters: map[string]int64{}},
		distinct: map[uint64]struct{}{}}
}

func (c *Ctx) Result() *ShardResult {
	c.res.Nontrivial = c.res.Nontrivial[:0]
	for h := range c.distinct {
		c.res.Nontrivial = append(c.res.Nontrivial, h)
	}
	return c.res
}

// Begin records the case in flight before any library call is made for it.
func (c *Ctx) Begin(id CaseID, seq uint64) {
	c.cur = id
	c.seq = seq
	c.res.Cases++
	c.res.Counters["cases."+id.Family]++
	c.res.LastSeq = seq
	if c.progress != nil {
		var b [160]byte
		s := fmt.Sprintf("%d %s\n", seq, id.String())
		copy(b[:], s)
		for i := len(s); i < len(b)-1; i++ {
			b[i] = ' '
		}
		b[len(b)-1] = '\n'
		c.progress.WriteAt(b[:], 0)
	}
}

// Eval counts library executions observed.
func (c *Ctx) Eval(n int) { c.res.Evaluations += int64(n) }

// Count adds to a named observation counter (mechanisms hit, points compared...).
func (c *Ctx) Count(name string, n int64) { c.res.Counters[name] += n }

// Nontrivial marks the current input (by digest) as non-trivial under the
// property's rule; distinct digests are counted.
func (c *Ctx) Nontrivial(digest string) {
	if len(c.distinct) >= 4_000_000 {
		return // cap; the evidence says so
	}
	h := fnv.New64a()
	h.Write([]byte(digest))
	c.distinct[h.Sum64()] = struct{}{}
}

// NontrivialHash is Nontrivial for callers that already have a 64-bit hash.
func (c *Ctx) NontrivialHash(h uint64) {
	if len(c.distinct) >= 4_000_000 {
		return
	}
	c.distinct[h] = struct{}{}
}

// Note records a (key,value) pair; the parent reports a failure if two
// workers recorded different values for the same key (cross-process determinism).
func (c *Ctx) Note(key, value string) {
	if c.res.Notes == nil {
		c.res.Notes = map[string]string{}
	}
	c.res.Notes[key] = value
}

// Sample keeps a few cases written out for the evidence file.
func (c *Ctx) Sample(v any) {
	if len(c.res.Samples) < 3 {
		c.res.Samples = append(c.res.Samples, v)
	}
}

func (c *Ctx) WantSample() bool { return len(c.res.Samples) < 3 }

// Fail records a violation for the current case.
func (c *Ctx) Fail(digest, sub, class, detail string, input any) {
	f := Failure{Prop: c.Prop, CaseID: c.cur.String(), Digest: digest,
		Sub: sub, Class: class, Detail: detail, Input: input}
	if c.known != nil {
		if kf := c.known.Match(f); kf != nil {
			if c.res.KnownMet == nil {
				c.res.KnownMet = map[string]int64{}
			}
			c.res.KnownMet[kf.ID]++
			return
		}
	}
	if len(c.res.Failures) >= 2000 {
		return
	}
	c.res.Failures = append(c.res.Failures, f)
	if c.failSink != nil {
		if b, err := json.Marshal(f); err == nil {
			c.failSink.Write(append(b, '\n'))
		}
	}
}

func (c *Ctx) Cur() CaseID { return c.cur }

// Guard runs f and converts a Go panic into a failure of the current case.
// It returns false if f panicked.
func (c *Ctx) Guard(digest, what string, input any, f func()) (ok bool) {
	defer func() {
		if r := recover(); r != nil {
			ok = false
			st := string(debug.Stack())
			c.Fail(digest, "panic/"+what, PanicSite(st), fmt.Sprintf("panic: %v\n%s", r, TrimStack(st)), input)
		}
	}()
	f()
	return true
}

// PanicSite extracts the top library frame (function name) from a stack.
func PanicSite(stack string) string {
	for _, ln := range strings.Split(stack, "\n") {
		if i := strings.Index(ln, "go-clipper2."); i >= 0 && !strings.Contains(ln, "verifharness") {
			f := ln[i+len("go-clipper2."):]
			if j := strings.Index(f, "("); j > 0 && !strings.HasPrefix(f, "(") {
				f = f[:j]
			} else if strings.HasPrefix(f, "(") {
				if j := strings.LastIndex(f, "("); j > 0 {
					f = f[:j]
				}
			}
			return "panic@" + f
		}
	}
	return "panic@?"
}

func TrimStack(st string) string {
	lines := strings.Split(st, "\n")
	var out []string
	for _, ln := range lines {
		if strings.Contains(ln, "go-clipper2") || strings.Contains(ln, "/repo/") {
			out = append(out, ln)
		}
		if len(out) >= 16 {
			break
		}
	}
	return strings.Join(out, "\n")
}

// Digest canonically hashes any JSON-able input.
func Digest(v any) string {
	b, _ := json.Marshal(v)
	s := sha256.Sum256(b)
	return hex.EncodeToString(s[:16])
}

// DigestInts hashes a sequence of int64 quickly (for micro cases).
func DigestInts(xs ...int64) uint64 {
	h := fnv.New64a()
	var b [8]byte
	for _, x := range xs {
		binary.LittleEndian.PutUint64(b[:], uint64(x))
		h.Write(b[:])
	}
	return h.Sum64()
}

// ---------------------------------------------------------------------------
// Known findings

type KnownFinding struct {
	ID       string   `json:"id"`
	Property string   `json:"property"`
	Kind     string   `json:"kind"` // "input" | "class"
	Case     string   `json:"case,omitempty"`
	Digest   string   `json:"digest,omitempty"`
	Subs     []string `json:"subs,omitempty"`  // sub-checks covered: exact names, or prefixes ending in '*'; empty = any
	Class    string   `json:"class,omitempty"` // call-site class
	What     string   `json:"what"`
}

type KnownFile struct {
	Findings []KnownFinding `json:"findings"`
	Fixed    []string       `json:"fixed"`
}

func LoadKnown(path string) (*KnownFile, error) {
	b, err := os.ReadFile(path)
	if err != nil {
		if os.IsNotExist(err) {
			return &KnownFile{}, nil
		}
		return nil, err
	}
	var k KnownFile
	if err := json.Unmarshal(b, &k); err != nil {
		return nil, err
	}
	return &k, nil
}

func subMatch(pats []string, sub string) bool {
	if len(pats) == 0 {
		return true
	}
	for _, pat := range pats {
		if strings.HasSuffix(pat, "*") {
			if strings.HasPrefix(sub, pat[:len(pat)-1]) {
				return true
			}
		} else if pat == sub {
			return true
		}
	}
	return false
}

// Match returns the known finding covering f, if any.
func (k *KnownFile) Match(f Failure) *KnownFinding {
	for i := range k.Findings {
		kf := &k.Findings[i]
		if kf.Property != f.Prop {
			continue
		}
		switch kf.Kind {
		case "input":
			if kf.Case == f.CaseID && kf.Digest == f.Digest && subMatch(kf.Subs, f.Sub) {
				return kf
			}
		case "class":
			if f.Class != "" && kf.Class == f.Class && subMatch(kf.Subs, f.Sub) {
				return kf
			}
		}
	}
	return nil
}

// ---------------------------------------------------------------------------
// Evidence

type Evidence struct {
	PropertyID  string         `json:"property_id"`
	Tier        string         `json:"tier"`
	Seed        int64          `json:"seed"`
	Level       string         `json:"level"`
	Coverage    map[string]any `json:"coverage"`
	Assumptions []string       `json:"assumptions"`
	WallS       float64        `json:"wall_s"`
	Violations  int            `json:"violations"`
}

func WriteEvidence(path string, ev *Evidence) error {
	b, err := json.MarshalIndent(ev, "", " ")
	if err != nil {
		return err
	}
	tmp := path + ".tmp"
	if err := os.WriteFile(tmp, b, 0o644); err != nil {
		return err
	}
	return os.Rename(tmp, path)
}

// SortedCounters renders counters deterministically.
func SortedCounters(m map[string]int64) []string {
	var ks []string
	for k := range m {
		ks = append(ks, k)
	}
	sort.Strings(ks)
	return ks
}
