// vdebug: developer aid (not part of any registered check): run one boolean
// case with/without the counterfactual switches and print hook events.
package main

import (
	"flag"
	"fmt"

	clip "github.com/bolom009/go-clipper2"

	"verifharness/props"
	"verifharness/run"
)

func main() {
	cs := flag.String("case", "", "case id")
	ct := flag.Int("ct", 2, "clip type")
	fr := flag.Int("fr", 1, "fill rule")
	noJoin := flag.Bool("nojoin", false, "")
	ev := flag.Bool("events", false, "")
	flag.Parse()
	id, err := run.ParseCaseID(*cs)
	if err != nil {
		panic(err)
	}
	subj, clp := props.BoolInput(id)
	fmt.Printf("subject=%v\nclip=%v\n", subj, clp)
	c := clip.NewClipper64()
	rec := clip.NewVerifRecorder(true)
	c.VerifRecord(rec)
	c.VerifSetSwitches(*noJoin, false)
	c.AddPaths(subj, clip.Subject, false)
	if clp != nil {
		c.AddPaths(clp, clip.Clip, false)
	}
	sol := clip.Paths64{}
	ok := c.Execute(clip.ClipType(*ct), clip.FillRule(*fr), &sol)
	fmt.Printf("ok=%v solution=%v\ncounts=%v\n", ok, sol, rec.Counts)
	if *ev {
		for _, e := range rec.Events {
			fmt.Println(e)
		}
	}
}
