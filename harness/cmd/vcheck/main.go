// vcheck: parent / worker driver for the property monitors.
package main

import (
	"bufio"
	"encoding/binary"
	"encoding/json"
	"flag"
	"fmt"
	"os"
	"os/exec"
	"path/filepath"
	"runtime"
	"sort"
	"strconv"
	"strings"
	"sync"
	"time"

	"verifharness/props"
	"verifharness/run"
)

var (
	fProp    = flag.String("prop", "", "property id")
	fTier    = flag.String("tier", "quick", "quick|thorough")
	fSeed    = flag.Uint64("seed", 1, "seed (VERIF_SEED)")
	fWorker  = flag.Bool("worker", false, "run as worker")
	fShard   = flag.Int("shard", 0, "")
	fNShards = flag.Int("nshards", 1, "")
	fOut     = flag.String("out", "", "work dir")
	fResume  = flag.Uint64("resume", 0, "first sequence number to run")
	fReplay  = flag.String("replay", "", "replay file or case id")
	fDir     = flag.String("dir", "/verif", "verif root")
	fJobs    = flag.Int("jobs", 0, "parallel workers (default NumCPU)")
	fList    = flag.Bool("list", false, "list properties")
)

func main() {
	flag.Parse()
	if *fList {
		for _, id := range props.IDs() {
			fmt.Println(id)
		}
		return
	}
	p := props.Get(*fProp)
	if p == nil {
		fmt.Fprintf(os.Stderr, "unknown property %q\n", *fProp)
		os.Exit(2)
	}
	switch {
	case *fWorker:
		os.Exit(worker(p))
	case *fReplay != "":
		os.Exit(replay(p))
	default:
		os.Exit(parent(p))
	}
}

func shardCases(all []run.CaseID, shard, n int) (ids []run.CaseID, seqs []uint64) {
	for i, c := range all {
		if i%n == shard {
			ids = append(ids, c)
			seqs = append(seqs, uint64(i))
		}
	}
	return
}

// memoryGuard ends the worker when the Go heap exceeds a fixed budget: a library
// loop that allocates without bound is a termination failure of the case in
// flight (the parent attributes it through the progress file), and it must not
// be allowed to exhaust the machine.
func memoryGuard(limit uint64) {
	go func() {
		var ms runtime.MemStats
		for {
			time.Sleep(150 * time.Millisecond)
			runtime.ReadMemStats(&ms)
			if ms.HeapAlloc > limit {
				fmt.Fprintf(os.Stderr, "MEMORY BUDGET EXCEEDED: heap %d MiB > %d MiB while running the case in the progress file (library allocates without bound)\n", ms.HeapAlloc>>20, limit>>20)
				os.Exit(97)
			}
		}
	}()
}

func worker(p *run.Prop) int {
	memoryGuard(3 << 30)
	prog, err := os.OpenFile(filepath.Join(*fOut, fmt.Sprintf("shard-%d.progress", *fShard)), os.O_CREATE|os.O_WRONLY, 0o644)
	if err != nil {
		fmt.Fprintln(os.Stderr, err)
		return 2
	}
	ctx := run.NewCtx(p.ID, *fTier, *fSeed, prog)
	ff, err := os.OpenFile(filepath.Join(*fOut, fmt.Sprintf("shard-%d.fail.jsonl", *fShard)), os.O_CREATE|os.O_WRONLY|os.O_APPEND, 0o644)
	if err != nil {
		fmt.Fprintln(os.Stderr, err)
		return 2
	}
	ctx.SetFailSink(ff)
	if known, err := run.LoadKnown(filepath.Join(*fDir, "KNOWN_FINDINGS.json")); err == nil {
		ctx.SetKnown(known)
	}
	all := p.Cases(*fTier, *fSeed)
	ids, seqs := shardCases(all, *fShard, *fNShards)
	for i, id := range ids {
		if seqs[i] < *fResume {
			continue
		}
		ctx.Begin(id, seqs[i])
		p.RunCase(ctx, id)
	}
	res := ctx.Result()
	res.Shard = *fShard
	res.Done = true
	res.Failures = nil // already streamed
	b, _ := json.Marshal(res)
	if err := os.WriteFile(filepath.Join(*fOut, fmt.Sprintf("shard-%d.%d.json", *fShard, *fResume)), b, 0o644); err != nil {
		fmt.Fprintln(os.Stderr, err)
		return 2
	}
	nt := make([]byte, 8*len(res.Nontrivial))
	for i, h := range res.Nontrivial {
		binary.LittleEndian.PutUint64(nt[8*i:], h)
	}
	os.WriteFile(filepath.Join(*fOut, fmt.Sprintf("shard-%d.%d.nt", *fShard, *fResume)), nt, 0o644)
	return 0
}

type shardOutcome struct {
	results      []*run.ShardResult
	crashes      []run.Failure
	inconclusive []string
}

func runShard(p *run.Prop, self, dir string, shard, n int, timeout time.Duration) shardOutcome {
	var out shardOutcome
	resume := uint64(0)
	for attempt := 0; attempt < 50; attempt++ {
		errPath := filepath.Join(dir, fmt.Sprintf("shard-%d.%d.stderr", shard, resume))
		ef, _ := os.Create(errPath)
		cmd := exec.Command(self, "-worker", "-prop", p.ID, "-tier", *fTier, "-seed", strconv.FormatUint(*fSeed, 10),
			"-shard", strconv.Itoa(shard), "-nshards", strconv.Itoa(n), "-out", dir, "-resume", strconv.FormatUint(resume, 10))
		cmd.Stderr = ef
		cmd.Stdout = ef
		cmd.Env = append(os.Environ(), "GOTRACEBACK=all",
			fmt.Sprintf("GORACE=halt_on_error=0 exitcode=0 log_path=%s", filepath.Join(dir, fmt.Sprintf("race-shard-%d", shard))))
		start := time.Now()
		if err := cmd.Start(); err != nil {
			out.inconclusive = append(out.inconclusive, fmt.Sprintf("shard %d: cannot start worker: %v", shard, err))
			return out
		}
		done := make(chan error, 1)
		go func() { done <- cmd.Wait() }()
		var werr error
		timedOut := false
		select {
		case werr = <-done:
		case <-time.After(timeout):
			timedOut = true
			cmd.Process.Signal(os.Interrupt)
			cmd.Process.Kill()
			<-done
		}
		ef.Close()
		resPath := filepath.Join(dir, fmt.Sprintf("shard-%d.%d.json", shard, resume))
		if b, err := os.ReadFile(resPath); err == nil && werr == nil {
			var r run.ShardResult
			if json.Unmarshal(b, &r) == nil && r.Done {
				if nt, err := os.ReadFile(filepath.Join(dir, fmt.Sprintf("shard-%d.%d.nt", shard, resume))); err == nil {
					for i := 0; i+8 <= len(nt); i += 8 {
						r.Nontrivial = append(r.Nontrivial, binary.LittleEndian.Uint64(nt[i:]))
					}
				}
				out.results = append(out.results, &r)
				return out
			}
		}
		// abnormal end: which case was in flight?
		seq, cid := readProgress(filepath.Join(dir, fmt.Sprintf("shard-%d.progress", shard)))
		if timedOut {
			out.inconclusive = append(out.inconclusive, fmt.Sprintf("shard %d: wall-clock watchdog (%s) fired after %s in case %s (seq %d); not a verdict",
				shard, timeout, time.Since(start).Round(time.Second), cid, seq))
			return out
		}
		if cid == "" {
			out.inconclusive = append(out.inconclusive, fmt.Sprintf("shard %d: worker died before its first case: %v: %s", shard, werr, tail(errPath, 5)))
			return out
		}
		st := tail(errPath, 60)
		site := run.PanicSite(st)
		if strings.Contains(st, "MEMORY BUDGET EXCEEDED") {
			site = "memory-budget"
		}
		out.crashes = append(out.crashes, run.Failure{Prop: p.ID, CaseID: cid, Digest: "", Sub: "fatal",
			Class: site, Detail: fmt.Sprintf("worker process died (%v) while running this case:\n%s", werr, st)})
		resume = seq + 1
	}
	out.inconclusive = append(out.inconclusive, fmt.Sprintf("shard %d: too many worker crashes", shard))
	return out
}

func readProgress(path string) (uint64, string) {
	b, err := os.ReadFile(path)
	if err != nil {
		return 0, ""
	}
	f := strings.Fields(string(b))
	if len(f) < 2 {
		return 0, ""
	}
	seq, _ := strconv.ParseUint(f[0], 10, 64)
	return seq, f[1]
}

func tail(path string, n int) string {
	b, err := os.ReadFile(path)
	if err != nil {
		return ""
	}
	lines := strings.Split(strings.TrimRight(string(b), "\n"), "\n")
	// keep the head of a Go panic (first lines are the most informative)
	if len(lines) > n {
		lines = lines[:n]
	}
	return strings.Join(lines, "\n")
}

func parent(p *run.Prop) int {
	t0 := time.Now()
	if p.Custom != nil {
		return p.Custom(*fTier, *fSeed)
	}
	evPath := filepath.Join(*fDir, "evidence", p.ID+".json")
	os.Remove(evPath)
	known, err := run.LoadKnown(filepath.Join(*fDir, "KNOWN_FINDINGS.json"))
	if err != nil {
		fmt.Fprintln(os.Stderr, "cannot read KNOWN_FINDINGS.json:", err)
		return 2
	}
	self, _ := os.Executable()
	n := *fJobs
	if n <= 0 {
		n = runtime.NumCPU()
	}
	all := p.Cases(*fTier, *fSeed)
	if len(all) < n {
		n = max(1, len(all))
	}
	dir := filepath.Join(*fDir, ".work", fmt.Sprintf("%s-%s-%d", p.ID, *fTier, os.Getpid()))
	os.MkdirAll(dir, 0o755)
	defer os.RemoveAll(dir)

	timeout := 8 * time.Minute
	if *fTier == "thorough" {
		timeout = 5 * time.Hour
	}
	outs := make([]shardOutcome, n)
	var wg sync.WaitGroup
	for i := 0; i < n; i++ {
		wg.Add(1)
		go func(i int) {
			defer wg.Done()
			outs[i] = runShard(p, self, dir, i, n, timeout)
		}(i)
	}
	wg.Wait()

	// merge
	var evals, cases int64
	counters := map[string]int64{}
	distinct := map[uint64]struct{}{}
	var samples []any
	var failures []run.Failure
	var inconclusive []string
	notes := map[string]string{}
	knownMet := map[string]int{}
	knownWhat := map[string]string{}
	for _, kf := range known.Findings {
		knownWhat[kf.ID] = kf.What
	}
	for i := range outs {
		for _, r := range outs[i].results {
			for k, v := range r.KnownMet {
				knownMet[k] += int(v)
			}
			for k, v := range r.Notes {
				if old, ok := notes[k]; ok && old != v {
					failures = append(failures, run.Failure{Prop: p.ID, CaseID: k, Sub: "cross-process-determinism",
						Detail: fmt.Sprintf("two worker processes produced different output digests for the same input: %s vs %s", old, v)})
				}
				notes[k] = v
			}
			evals += r.Evaluations
			cases += r.Cases
			for k, v := range r.Counters {
				counters[k] += v
			}
			for _, h := range r.Nontrivial {
				distinct[h] = struct{}{}
			}
			if len(samples) < 3 {
				samples = append(samples, r.Samples...)
			}
		}
		failures = append(failures, outs[i].crashes...)
		inconclusive = append(inconclusive, outs[i].inconclusive...)
		// streamed failures
		if f, err := os.Open(filepath.Join(dir, fmt.Sprintf("shard-%d.fail.jsonl", i))); err == nil {
			sc := bufio.NewScanner(f)
			sc.Buffer(make([]byte, 1<<20), 1<<28)
			for sc.Scan() {
				var fl run.Failure
				if json.Unmarshal(sc.Bytes(), &fl) == nil {
					failures = append(failures, fl)
				}
			}
			f.Close()
		}
	}
	if len(samples) > 3 {
		samples = samples[:3]
	}
	// race detector reports (only produced by -race builds): every report is a violation
	raceReports := 0
	if rf, _ := filepath.Glob(filepath.Join(dir, "race-shard-*")); len(rf) > 0 {
		seenRace := map[string]bool{}
		for _, f := range rf {
			b, err := os.ReadFile(f)
			if err != nil {
				continue
			}
			for _, blk := range strings.Split(string(b), "==================") {
				if !strings.Contains(blk, "WARNING: DATA RACE") {
					continue
				}
				raceReports++
				key := raceKey(blk)
				if seenRace[key] {
					continue
				}
				seenRace[key] = true
				failures = append(failures, run.Failure{Prop: p.ID, CaseID: "concurrent/0/0", Sub: "data-race/" + key, Class: "", Detail: firstLines(strings.TrimSpace(blk), 40)})
			}
		}
	}
	counters["race_reports"] = int64(raceReports)
	sort.SliceStable(failures, func(i, j int) bool {
		if failures[i].CaseID != failures[j].CaseID {
			return failures[i].CaseID < failures[j].CaseID
		}
		return failures[i].Sub < failures[j].Sub
	})

	if dump := os.Getenv("VERIF_DUMP"); dump != "" {
		db, _ := json.Marshal(failures)
		os.WriteFile(dump, db, 0o644)
	}
	// classify failures
	violations := 0
	os.MkdirAll(filepath.Join(*fDir, "replay"), 0o755)
	seenViol := map[string]bool{}
	for _, f := range failures {
		if kf := known.Match(f); kf != nil {
			knownMet[kf.ID]++
			knownWhat[kf.ID] = kf.What
			continue
		}
		violations++
		key := f.CaseID + "|" + f.Sub
		if seenViol[key] || len(seenViol) >= 25 {
			continue
		}
		seenViol[key] = true
		rp := filepath.Join(*fDir, "replay", fmt.Sprintf("%s-%s.json", p.ID, sanitize(f.CaseID+"-"+f.Sub)))
		rb, _ := json.MarshalIndent(map[string]any{"property": p.ID, "case": f.CaseID, "tier": *fTier, "seed": *fSeed, "failure": f}, "", " ")
		os.WriteFile(rp, rb, 0o644)
		fmt.Printf("VIOLATION property=%s replay=%s\n", p.ID, rp)
		fmt.Printf("  case=%s sub=%s class=%s\n  %s\n", f.CaseID, f.Sub, f.Class, firstLines(f.Detail, 6))
	}
	if violations > 0 {
		perFam := map[string]map[string]bool{}
		for _, f := range failures {
			if known.Match(f) != nil {
				continue
			}
			fam := f.CaseID
			if i := strings.Index(fam, "/"); i > 0 {
				fam = fam[:i]
			}
			if perFam[fam] == nil {
				perFam[fam] = map[string]bool{}
			}
			perFam[fam][f.CaseID] = true
		}
		for fam, m := range perFam {
			fmt.Printf("  failing cases in family %-18s %d\n", fam, len(m))
		}
	}
	var kfIDs []string
	for id := range knownMet {
		kfIDs = append(kfIDs, id)
	}
	sort.Strings(kfIDs)
	for _, id := range kfIDs {
		fmt.Printf("KNOWN-FINDING: property=%s %s %s (met %d times)\n", p.ID, id, knownWhat[id], knownMet[id])
	}
	for _, s := range inconclusive {
		fmt.Printf("INCONCLUSIVE: property=%s %s\n", p.ID, s)
	}

	if p.Post != nil && violations == 0 {
		for _, s := range p.Post(counters) {
			inconclusive = append(inconclusive, s)
			fmt.Printf("INCONCLUSIVE: property=%s %s\n", p.ID, s)
		}
	}
	if len(samples) == 0 {
		samples = append(samples, "no case produced a sample")
	}
	cov := map[string]any{
		"evaluations":         evals,
		"distinct_nontrivial": len(distinct),
		"rule":                p.Rule,
		"samples":             samples,
		"cases":               cases,
		"cases_planned":       len(all),
		"observed":            counters,
		"known_findings_met":  knownMet,
		"inconclusive":        inconclusive,
		"workers":             n,
		"cross_process_keys":  len(notes),
		"exhaustive":          false,
	}
	ev := &run.Evidence{PropertyID: p.ID, Tier: *fTier, Seed: int64(*fSeed), Level: "exploration", Coverage: cov,
		Assumptions: p.Assumptions, WallS: time.Since(t0).Seconds(), Violations: violations}
	if evals < 1 {
		cov["evaluations"] = 1 // schema minimum; flagged inconclusive below
		inconclusive = append(inconclusive, "no evaluations")
	}
	if err := run.WriteEvidence(evPath, ev); err != nil {
		fmt.Fprintln(os.Stderr, "cannot write evidence:", err)
		return 2
	}
	fmt.Printf("%s %s seed=%d: cases=%d evaluations=%d distinct_nontrivial=%d violations=%d known=%d wall=%.1fs\n",
		p.ID, *fTier, *fSeed, cases, evals, len(distinct), violations, len(knownMet), time.Since(t0).Seconds())
	for _, k := range run.SortedCounters(counters) {
		fmt.Printf("  observed %-34s %d\n", k, counters[k])
	}
	if violations > 0 {
		return 1
	}
	floor := p.Floor
	if len(inconclusive) > 0 || len(distinct) < max(2, floor) {
		if len(distinct) < max(2, floor) {
			fmt.Printf("INCONCLUSIVE: property=%s only %d distinct non-trivial cases observed (floor %d)\n", p.ID, len(distinct), max(2, floor))
		}
		return 3
	}
	return 0
}

// raceKey deduplicates race reports by the pair of library functions on top of the two stacks.
func raceKey(blk string) string {
	var fns []string
	lines := strings.Split(blk, "\n")
	for i, ln := range lines {
		t := strings.TrimSpace(ln)
		if (strings.HasPrefix(t, "Write at") || strings.HasPrefix(t, "Read at") || strings.HasPrefix(t, "Previous write at") || strings.HasPrefix(t, "Previous read at")) && i+1 < len(lines) {
			f := strings.TrimSpace(lines[i+1])
			if j := strings.LastIndex(f, "/"); j >= 0 {
				f = f[j+1:]
			}
			if j := strings.Index(f, "("); j > 0 {
				f = f[:j]
			}
			fns = append(fns, f)
		}
	}
	sort.Strings(fns)
	return strings.Join(fns, "~")
}

func sanitize(s string) string {
	var b strings.Builder
	for _, r := range s {
		if r >= 'a' && r <= 'z' || r >= 'A' && r <= 'Z' || r >= '0' && r <= '9' || r == '-' || r == '_' {
			b.WriteRune(r)
		} else {
			b.WriteByte('_')
		}
	}
	out := b.String()
	if len(out) > 120 {
		out = out[:120]
	}
	return out
}

func firstLines(s string, n int) string {
	l := strings.Split(s, "\n")
	if len(l) > n {
		l = l[:n]
	}
	return strings.Join(l, "\n  ")
}

func replay(p *run.Prop) int {
	cidStr := *fReplay
	if b, err := os.ReadFile(*fReplay); err == nil {
		var m struct {
			Case string `json:"case"`
			Tier string `json:"tier"`
			Seed uint64 `json:"seed"`
		}
		if json.Unmarshal(b, &m) == nil && m.Case != "" {
			cidStr = m.Case
			if m.Tier != "" {
				*fTier = m.Tier
			}
			if m.Seed != 0 {
				*fSeed = m.Seed
			}
		}
	}
	cid, err := run.ParseCaseID(cidStr)
	if err != nil {
		fmt.Fprintln(os.Stderr, err)
		return 2
	}
	known, _ := run.LoadKnown(filepath.Join(*fDir, "KNOWN_FINDINGS.json"))
	ctx := run.NewCtx(p.ID, *fTier, *fSeed, nil)
	ctx.Verbose = true
	ctx.Begin(cid, 0)
	p.RunCase(ctx, cid)
	res := ctx.Result()
	viol := 0
	for _, f := range res.Failures {
		if kf := known.Match(f); kf != nil {
			fmt.Printf("KNOWN-FINDING: property=%s %s %s\n", p.ID, kf.ID, kf.What)
			continue
		}
		viol++
		b, _ := json.MarshalIndent(f, "", " ")
		fmt.Printf("VIOLATION property=%s replay=%s\n%s\n", p.ID, *fReplay, b)
	}
	fmt.Printf("replayed %s: evaluations=%d failures=%d\n", cid, res.Evaluations, viol)
	if viol > 0 {
		return 1
	}
	return 0
}
